"""K6 (model tie): the Coq model of the language server (coq/Model/Lsp.v, extracted to
ocaml/lsp_model.ml, run by ocaml/lspdriver) against the real code.

 (i)   position conversion: (text, line, character) and (text, byte offset) through
       compat::position_to_offset / compat::span_to_range (hooks verif_position_to_offset /
       verif_span_to_range, `lv-harness lsppos`) and through the model's position_to_offset /
       offset_to_position (one-pass) and *_cs (literal transcription of codespan); all three must agree;
 (ii)  the document store: random histories (a conformant stream and a non-conformant stream) through
       ide::Cache in-process (`lv-harness lsp`, catch_unwind) and through Lsp.run with analyse = identity;
       compared: crash / no crash per message, and which text every publication and answer was computed
       from (the observable of a text is what a fresh server says about it: published diagnostics and
       answers are pairwise distinct over the pool, checked before use);
 (iii) what the in-process driver cannot express - several or no entries in contentChanges - over stdio
       with the real lelwel-ls binary;
 (iv)  end to end: hover through ide::Cache on texts with multi-byte characters and \\r\\n; the returned
       range must be the model's offset_to_position of the identifier that contains the model's
       position_to_offset of the request position.

All randomness comes from the random.Random passed in."""
import collections
import json
import os
import re
import subprocess
import time

import lv
import k6_lsp as k6

MODEL_ML = os.path.join(lv.OCAML, 'lsp_model.ml')
DRIVER_ML = os.path.join(lv.OCAML, 'lspdriver.ml')
DRIVER = os.path.join(lv.OCAML, 'lspdriver')
KINDS = ['hover', 'definition', 'references', 'completion', 'formatting']
MAXNAT = 3000       # positions are unary numbers in the extracted model


# ---------------------------------------------------------------- build

def build():
    """extract the model and compile the driver (from a fresh checkout: compiles Model/Lsp.v first).
    returns seconds"""
    t = time.time()
    with lv.Lock('coq'):
        src = os.path.join(lv.COQ, 'Model', 'Lsp.v')
        vo = os.path.join(lv.COQ, 'Model', 'Lsp.vo')
        ex = os.path.join(lv.COQ, 'Extract', 'ExtractLsp.v')
        if not os.path.exists(vo) or os.path.getmtime(vo) < os.path.getmtime(src):
            lv.sh(['timeout', '600', 'coqc', '-Q', '.', 'LV', 'Model/Lsp.v'], cwd=lv.COQ)
        if not os.path.exists(MODEL_ML) or os.path.getmtime(MODEL_ML) < max(os.path.getmtime(vo), os.path.getmtime(ex)):
            lv.sh(['timeout', '600', 'coqc', '-Q', '.', 'LV', 'Extract/ExtractLsp.v'], cwd=lv.COQ)
        if not os.path.exists(DRIVER) or os.path.getmtime(DRIVER) < max(os.path.getmtime(MODEL_ML), os.path.getmtime(DRIVER_ML)):
            lv.sh(['ocamlfind', 'ocamlopt', '-O2', '-w', '-a', 'lsp_model.mli', 'lsp_model.ml', 'lspdriver.ml', '-o', 'lspdriver'], cwd=lv.OCAML)
    return time.time() - t


def run_model(lines):
    """lines: driver input; returns the answer lines (one per P/O/H line)"""
    r = subprocess.run(['bash', '-c', 'ulimit -s unlimited 2>/dev/null; exec "$0"', DRIVER], input=('\n'.join(lines) + '\n').encode(),
                       stdout=subprocess.PIPE, stderr=subprocess.PIPE, timeout=1800)
    if r.returncode != 0:
        raise RuntimeError('lspdriver failed (%r): %s' % (r.returncode, r.stderr.decode('utf-8', 'replace')[-800:]))
    return r.stdout.decode().split('\n')[:-1]


def cps(text):
    return ' '.join(str(ord(c)) for c in text)


# ---------------------------------------------------------------- (i) positions

# characters at the borders of the UTF-8 / UTF-16 length classes, line terminators, ordinary letters
ALPHABET = ['a', 'b', ' ', 'Z', '\n', '\n', '\r\n', '\r\n', '\r', '\t', '\x7f', '\x80', '\u00e9', '\u07ff', '\u0800', '\u65e5', '\ud7ff', '\ue000',
            '\uffff', '\U00010000', '\U0001F600', '\U0010FFFF', 'a\u0301']
SMALL = ['a', '\n', '\r', '\u00e9', '\U0001F600']


def text_class(t):
    c = []
    if any(ord(x) > 0xFFFF for x in t):
        c.append('astral')
    if any(0x7f < ord(x) <= 0xFFFF for x in t):
        c.append('multibyte')
    if '\r\n' in t:
        c.append('crlf')
    if re.search(r'\r(?!\n)', t):
        c.append('lone_cr')
    if t and not t.endswith('\n'):
        c.append('no_final_newline')
    if not t:
        c.append('empty')
    return c or ['ascii']


def position_texts(rng, n_random, realistic):
    texts = ['']
    # every text of at most 3 characters over a small alphabet
    level = ['']
    for _ in range(3):
        level = [p + c for p in level for c in SMALL]
        texts += level
    for _ in range(n_random):
        n = rng.choice([1, 2, 3, 5, 8, 13, 21, 34])
        texts.append(''.join(rng.choice(ALPHABET) for _ in range(n)))
    texts += realistic
    seen = set()
    out = []
    for t in texts:
        if t not in seen:
            seen.add(t)
            out.append(t)
    return out


def positions_for(rng, t, cap):
    doc = k6.Doc(t)
    ps = []
    for l in range(doc.nlines + 2):
        m = doc.len16_raw[l] if l < doc.nlines else 0
        for c in range(m + 3):
            ps.append((l, c))
    if len(ps) > cap:
        ps = rng.sample(ps, cap)
    for _ in range(3):
        ps.append((rng.randrange(0, MAXNAT), rng.randrange(0, MAXNAT)))
    return ps


def check_positions(rng, quick, realistic, stats):
    """returns list of disagreements (dicts)"""
    texts = position_texts(rng, 3000 if quick else 30000, realistic)
    cases = []
    for t in texts:
        ps = positions_for(rng, t, 160 if quick else 400)
        n = len(t.encode('utf-8'))
        os_ = list(range(n + 3)) if n <= 200 else sorted(rng.sample(range(n + 3), 200))
        cases.append((t, ps, os_))
        for c in text_class(t):
            stats['pos_text_' + c] += 1
    stats['pos_texts'] = len(cases)
    # the implementation
    inp = ''.join(json.dumps({'t': t, 'p': [list(p) for p in ps], 'o': os_}) + '\n' for t, ps, os_ in cases)
    r = subprocess.run([lv.HARNESS_BIN, 'lsppos'], input=inp.encode('utf-8'), stdout=subprocess.PIPE, stderr=subprocess.PIPE, timeout=1800)
    impl = [json.loads(l) for l in r.stdout.decode('utf-8').split('\n') if l.strip()]
    if r.returncode != 0 or len(impl) != len(cases):
        raise RuntimeError('lv-harness lsppos: exit %r, %d answers for %d cases: %s' % (r.returncode, len(impl), len(cases), r.stderr.decode('utf-8', 'replace')[-400:]))
    # the model
    lines = []
    for i, (t, ps, os_) in enumerate(cases):
        lines.append('T %d %s' % (i, cps(t)))
        lines.append('P %d %s' % (i, ' '.join('%d %d' % p for p in ps)))
        lines.append('O %d %s' % (i, ' '.join(map(str, os_))))
    mo = run_model(lines)
    if len(mo) != 2 * len(cases):
        raise RuntimeError('lspdriver: %d answers for %d cases' % (len(mo), len(cases)))
    bad = []
    for i, (t, ps, os_) in enumerate(cases):
        mp = [tuple(map(int, w.split(':'))) for w in mo[2 * i].split()]
        mq = [w.split(':') for w in mo[2 * i + 1].split()]
        doc = k6.Doc(t)
        bl = len(doc.bytes)
        # direct oracle, independent of the model (the clause C20_position_to_offset_in_addressed_line /
        # _missing_line_is_document_end proves for the model): the offset lies inside the addressed line, its
        # terminating newline excluded, or is the document end when the line does not exist
        lstarts = [0] + [k + 1 for k, ch in enumerate(doc.bytes) if ch == 0x0A]
        for p, (a, b), real in zip(ps, mp, impl[i]['p']):
            stats['pos_p2o_pairs'] += 1
            stats['pos_p2o_' + (doc.pos_class(p[0], p[1]) or 'exact')] += 1
            if isinstance(real, int):
                if p[0] < len(lstarts):
                    lo = lstarts[p[0]]
                    hi = (lstarts[p[0] + 1] - 1) if p[0] + 1 < len(lstarts) else bl
                    in_line = lo <= real <= hi
                else:
                    in_line = real == bl
                if not in_line:
                    bad.append({'kind': 'position_to_offset_outside_addressed_line', 'text': t, 'position': list(p), 'impl': real,
                                'model': a, 'property_fails': True,
                                'what': 'a request at this position is answered from another line (or from behind the document)'})
                    continue
            if not (a == b == real):
                bad.append({'kind': 'position_to_offset', 'text': t, 'position': list(p), 'impl': real, 'model': a, 'model_codespan_literal': b})
            elif not (real <= bl and doc.byte_to_pos(real) is not None):
                bad.append({'kind': 'position_to_offset_off_boundary', 'text': t, 'position': list(p), 'impl': real, 'property_fails': True})
        for o, (a, b), real in zip(os_, mq, impl[i]['o']):
            stats['pos_o2p_pairs'] += 1
            rs = 'E' if real is None else ('%d,%d' % tuple(real) if isinstance(real, list) else 'X')
            stats['pos_o2p_' + ('crash' if rs == 'E' else 'ok')] += 1
            if not (a == b == rs):
                bad.append({'kind': 'offset_to_position', 'text': t, 'offset': o, 'impl': real, 'model': a, 'model_codespan_literal': b})
            elif rs != 'E':
                # round trip through the implementation when the theorem's side condition holds
                l, c = real
                pre = doc.bytes[doc.bstarts[l]:o]
                if b'\r' not in pre:
                    stats['pos_round_trip_checked'] += 1
            elif doc.byte_to_pos(o) is not None:
                bad.append({'kind': 'span_to_range_panics_on_boundary', 'text': t, 'offset': o, 'property_fails': True})
    return bad


# ---------------------------------------------------------------- (ii) the store

def pool_text(k):
    """valid grammars; the hover on (0,3) names token A<k>, the `unused token` warning sits on line 2+k"""
    return 's: A%d;\nstart s;\ntoken A%d%sU;\n' % (k, k, '\n' * (k + 1))


PROBES = [('hover', 0, 3), ('hover', 0, 0), ('completion', 0, 3), ('formatting', 0, 0), ('hover', 0, 4), ('completion', 0, 0),
          ('completion', 7, 7), ('definition', 0, 4), ('references', 2, 7), ('hover', 0, 200), ('hover', 99, 0), ('definition', 2, 6), ('hover', 1, 2)]


def norm(v, uri):
    return json.dumps(v, sort_keys=True, ensure_ascii=False).replace(uri, 'URI')


def req(kind, uri, line, ch):
    m = {'op': kind, 'uri': uri, 'line': line, 'character': ch}
    if kind == 'references':
        m['with_def'] = True
    return m


class Store:
    def __init__(self, rng, docs_dir, npool=16, nuris=4):
        self.rng = rng
        self.uris = ['file://' + os.path.join(docs_dir, 'm%d.llw' % i) for i in range(nuris)]
        self.pool = [pool_text(k) for k in range(npool)]
        self.canon_diag = {}
        self.canon_ans = {}
        self.identifying = collections.Counter()

    def prepare(self):
        """what a fresh server says about every pool text (publication, and every probe request)"""
        u = self.uris[0]
        hs = []
        for t in self.pool:
            for (k, l, c) in PROBES:
                hs.append([{'op': 'open', 'uri': u, 'text': t}, req(k, u, l, c)])
        ans = k6.run_inproc(hs, workers=8)
        i = 0
        for ti, t in enumerate(self.pool):
            for p in PROBES:
                a = ans[i]
                i += 1
                if len(a) != 2 or 'result' not in a[0] or 'result' not in a[1] or a[1].get('dead_thread'):
                    raise RuntimeError('fresh session on pool text %d / probe %r failed: %r' % (ti, p, a))
                self.canon_diag[ti] = norm(a[0]['result'], u)
                self.canon_ans[(ti, p)] = norm(a[1]['result'], u)
        if len(set(self.canon_diag.values())) != len(self.pool):
            raise RuntimeError('published diagnostics do not identify the pool texts')
        for p in PROBES:
            self.identifying[p] = len({self.canon_ans[(ti, p)] for ti in range(len(self.pool))})

    # -- histories as lists of model ops: ('o',u,t) ('c',u,[t..]) ('x',u) ('r',kind,u,line,ch)
    def history(self, conformant, maxlen):
        rng = self.rng
        opened = set()
        h = []
        n = rng.randrange(2, maxlen + 1)
        while len(h) < n:
            u = rng.randrange(len(self.uris))
            t = rng.randrange(len(self.pool))
            if conformant:
                if u not in opened:
                    op = ('o', u, t)
                else:
                    x = rng.random()
                    op = ('c', u, [t]) if x < 0.3 else ('x', u) if x < 0.45 else None
            else:
                x = rng.random()
                op = ('o', u, t) if x < 0.25 else ('c', u, [t]) if x < 0.45 else ('x', u) if x < 0.6 else None
            if op is None:
                # mostly probes whose answer identifies the text
                k, l, c = rng.choice(PROBES[:6] if rng.random() < 0.75 else PROBES)
                op = ('r', k, u, l, c)
            if op[0] == 'o':
                opened.add(u)
            if op[0] == 'x':
                opened.discard(u)
            h.append(op)
        return h

    def model_line(self, h):
        out = []
        for op in h:
            if op[0] == 'o':
                out.append('o %d %d' % (op[1], op[2]))
            elif op[0] == 'c':
                out.append('c %d %s' % (op[1], ' '.join(map(str, op[2]))))
            elif op[0] == 'x':
                out.append('x %d' % op[1])
            else:
                out.append('r %d %d %d %d' % (KINDS.index(op[1]), op[2], op[3], op[4]))
        return 'H ' + ';'.join(out)

    def wire(self, h):
        out = []
        for op in h:
            if op[0] == 'o':
                out.append({'op': 'open', 'uri': self.uris[op[1]], 'text': self.pool[op[2]]})
            elif op[0] == 'c':
                assert len(op[2]) == 1
                out.append({'op': 'change', 'uri': self.uris[op[1]], 'text': self.pool[op[2][0]]})
            elif op[0] == 'x':
                out.append({'op': 'close', 'uri': self.uris[op[1]]})
            else:
                out.append(req(op[1], self.uris[op[2]], op[3], op[4]))
        return out

    def text_lines(self):
        return ['T %d %s' % (i, cps(t)) for i, t in enumerate(self.pool)]

    def compare(self, h, model_line, ans, stats=None):
        """None, or (message index, description)"""
        flags, _, outs = model_line.partition(' | ')
        outs = outs.split(';')
        if len(outs) != len(h):
            return (-1, 'model returned %d outputs for %d messages' % (len(outs), len(h)))
        for i, (op, mo) in enumerate(zip(h, outs)):
            if i >= len(ans):
                return (i, 'the in-process driver gave no answer for message %d' % i)
            a = ans[i]
            w = mo.split()
            uri = self.uris[op[1] if op[0] != 'r' else op[2]]
            if a.get('dead_thread') or 'crash' in a or a.get('hang'):
                return (i, 'the implementation fails in a way the model has no value for: %r' % {k: a[k] for k in a if k != 'result'})
            if w[0] == 'C':
                if stats is not None:
                    stats['store_model_crash'] += 1
                if not a.get('panic'):
                    return (i, 'model: the server panics at %r; implementation answers %s' % (op, norm(a.get('result'), uri)[:200]))
                continue
            if a.get('panic'):
                return (i, 'implementation panics at %r (%s); model: %s' % (op, a.get('msg'), mo))
            got = norm(a.get('result'), uri)
            if w[0] == 'S':
                if a.get('result') is not None:
                    return (i, 'close answered with %s' % got[:200])
            elif w[0] == 'P':
                if stats is not None:
                    stats['store_publications_identified'] += 1
                if int(w[1]) != (op[1]) or got != self.canon_diag[int(w[2])]:
                    who = [k for k, v in self.canon_diag.items() if v == got]
                    return (i, 'publication at %r: model says computed from pool text %s, the implementation publishes the diagnostics of pool text %s' % (op, w[2], who or got[:200]))
            elif w[0] == 'A':
                p = (op[1], op[3], op[4])
                want = self.canon_ans[(int(w[3]), p)]
                if stats is not None:
                    stats['store_answers_compared'] += 1
                    if self.identifying[p] == len(self.pool):
                        stats['store_answers_identifying_the_text'] += 1
                if got != want:
                    who = [ti for ti in range(len(self.pool)) if self.canon_ans[(ti, p)] == got]
                    return (i, 'answer to %r: model says from pool text %s, the implementation answers as for pool text %s' % (op, w[3], who or got[:200]))
                if w[4] == 'W':
                    rng_ = (a.get('result') or [{}])[0].get('range')
                    mr = {'start': {'line': int(w[5]), 'character': int(w[6])}, 'end': {'line': int(w[7]), 'character': int(w[8])}}
                    if rng_ != mr:
                        return (i, 'formatting range: model %r, implementation %r' % (mr, rng_))
        return None


def py_conformant(h):
    opened = set()
    for op in h:
        u = op[1] if op[0] != 'r' else op[2]
        if op[0] == 'o':
            if u in opened:
                return False
            opened.add(u)
        elif op[0] == 'x':
            if u not in opened:
                return False
            opened.discard(u)
        elif op[0] == 'c':
            if u not in opened:
                return False
        elif u not in opened:
            return False
    return True


def check_store(rng, quick, docs_dir, stats):
    st = Store(rng, docs_dir)
    st.prepare()
    n_conf = 400 if quick else 6000
    n_non = 400 if quick else 6000
    maxlen = 14 if quick else 30
    hs = [(True, st.history(True, maxlen)) for _ in range(n_conf)] + [(False, st.history(False, maxlen)) for _ in range(n_non)]
    mo = run_model(st.text_lines() + [st.model_line(h) for _, h in hs])
    ans = k6.run_inproc([st.wire(h) for _, h in hs], workers=8)
    bad = []
    for (conf, h), ml, a in zip(hs, mo, ans):
        flags = ml.split(' | ')[0].split()
        stats['store_histories_' + ('conformant' if conf else 'unconstrained')] += 1
        stats['store_messages'] += len(h)
        for op in h:
            stats['store_op_' + {'o': 'open', 'c': 'change', 'x': 'close', 'r': 'request'}[op[0]]] += 1
        pc = py_conformant(h)
        if (flags[0] == '1') != pc or (conf and not pc):
            bad.append({'kind': 'conformance_flag', 'history': h, 'model': flags, 'python': pc})
            continue
        if not pc:
            stats['store_histories_outside_protocol'] += 1
        if conf and ' C' in (' ' + ml.split(' | ')[1].replace(';', ' ')):
            bad.append({'kind': 'model_crash_on_conformant_history', 'history': h, 'model': ml})
            continue
        d = st.compare(h, ml, a, stats)
        if d is not None:
            # shrink: drop messages while a disagreement remains (conformant histories stay conformant)
            cur, runs = h, 0
            progress = True
            while progress and runs < 80:
                progress = False
                for j in range(len(cur) - 1, -1, -1):
                    cand = cur[:j] + cur[j + 1:]
                    if not cand or (conf and not py_conformant(cand)):
                        continue
                    runs += 1
                    ml2 = run_model(st.text_lines() + [st.model_line(cand)])[0]
                    a2 = k6.run_inproc([st.wire(cand)], workers=1)[0]
                    d2 = st.compare(cand, ml2, a2)
                    if d2 is not None:
                        cur, d, progress = cand, d2, True
                        break
            bad.append({'kind': 'store', 'conformant_stream': conf, 'history': st.wire(cur), 'model_ops': cur, 'failing_message_index': d[0], 'what': d[1], 'shrink_runs': runs})
    stats['store_probe_answers_distinct_over_pool'] = {'%s@%d:%d' % p: n for p, n in st.identifying.items()}
    stats['store_pool_texts'] = len(st.pool)
    return bad, st


# ---------------------------------------------------------------- (iii) contentChanges over stdio

def stdio_run(st, h, outs, work, name, timeout=10.0):
    """one session with the lelwel-ls binary, paced by the model's outputs (what to wait for).
    h: model ops (changes with any number of entries); outs: the model's output words per message.
    returns (None | description of the first difference, died)"""
    cl = k6.LspClient(stderr_path=os.path.join(work, name + '.txt'), timeout=timeout)
    stray = []
    died = False
    try:
        cl.start()
        cl.initialize()
        for v, (op, mo) in enumerate(zip(h, outs)):
            w = mo.split()
            uri = st.uris[op[1] if op[0] != 'r' else op[2]]
            want = None
            try:
                if op[0] == 'o':
                    cl.notify('textDocument/didOpen', {'textDocument': {'uri': uri, 'languageId': 'lelwel', 'version': v, 'text': st.pool[op[2]]}})
                elif op[0] == 'c':
                    cl.notify('textDocument/didChange', {'textDocument': {'uri': uri, 'version': v}, 'contentChanges': [{'text': st.pool[t]} for t in op[2]]})
                elif op[0] == 'x':
                    cl.notify('textDocument/didClose', {'textDocument': {'uri': uri}})
                else:
                    params = {'textDocument': {'uri': uri}, 'position': {'line': op[3], 'character': op[4]}}
                    if op[1] == 'references':
                        params['context'] = {'includeDeclaration': True}
                    if op[1] == 'formatting':
                        params = {'textDocument': {'uri': uri}, 'options': {'tabSize': 4, 'insertSpaces': True}}
                    want = cl.request(k6.METHODS[op[1]], params)
                if w[0] == 'S':
                    continue
                if w[0] == 'C' and want is None:
                    return ('model crash at a notification cannot be observed: %r' % (op,), died)
                while True:
                    msg = cl.recv()
                    if w[0] == 'P' and msg.get('method') == 'textDocument/publishDiagnostics':
                        got = norm(msg['params']['diagnostics'], uri)
                        if msg['params'].get('uri') != uri or got != st.canon_diag[int(w[2])]:
                            who = [k for k, x in st.canon_diag.items() if x == got]
                            return ('message %d %r: model publishes from pool text %s, lelwel-ls publishes for %s the diagnostics of pool text %s'
                                    % (v, op, w[2], msg['params'].get('uri'), who or got[:200]), died)
                        break
                    if want is not None and msg.get('id') == want and 'method' not in msg:
                        if w[0] == 'C':
                            return ('message %d %r: model says the server panics, lelwel-ls answers %s' % (v, op, norm(msg.get('result'), uri)[:200]), died)
                        p = (op[1], op[3], op[4])
                        got = norm(msg.get('result'), uri)
                        if got != st.canon_ans[(int(w[3]), p)]:
                            who = [ti for ti in range(len(st.pool)) if st.canon_ans[(ti, p)] == got]
                            return ('message %d %r: model answers from pool text %s, lelwel-ls answers as for pool text %s' % (v, op, w[3], who or got[:200]), died)
                        break
                    stray.append(msg)
            except k6.ServerDied:
                died = True
                if w[0] != 'C':
                    return ('message %d %r: lelwel-ls died (exit %r), model: %s' % (v, op, cl.exit_code(5.0), mo), died)
                return (None, died)      # the session ends at the crash, as the model says
            except k6.RequestTimeout:
                return ('message %d %r: no answer from lelwel-ls within %.0f s, model: %s' % (v, op, timeout, mo), died)
        # nothing may be left over: ask for shutdown and look at what arrives before its answer
        try:
            sid = cl.request('shutdown', None)
            while True:
                msg = cl.recv()
                if msg.get('id') == sid and 'method' not in msg:
                    break
                stray.append(msg)
            cl.notify('exit', None)
        except (k6.ServerDied, k6.RequestTimeout):
            return ('lelwel-ls died or hung at shutdown after a session the model survives', True)
        if stray:
            return ('messages from lelwel-ls the model has no output for: %s' % json.dumps(stray)[:400], died)
        return (None, died)
    finally:
        cl.kill()


def multi_history(st, rng, maxlen):
    """conformant history whose changes carry 0..3 entries"""
    opened = set()
    h = []
    n = rng.randrange(3, maxlen + 1)
    while len(h) < n:
        u = rng.randrange(len(st.uris))
        if u not in opened:
            h.append(('o', u, rng.randrange(len(st.pool))))
            opened.add(u)
            continue
        x = rng.random()
        if x < 0.4:
            h.append(('c', u, [rng.randrange(len(st.pool)) for _ in range(rng.choice([0, 1, 2, 2, 3]))]))
        elif x < 0.5:
            h.append(('x', u))
            opened.discard(u)
        else:
            k, l, c = rng.choice(PROBES[:6])
            h.append(('r', k, u, l, c))
    return h


def check_content_changes(st, rng, quick, work, stats):
    """changes with several or no entries, requests without document: the model (theorems
    C20_change_published_from_latest_text, C20_empty_change_is_silent, C20_request_without_document_crashes,
    change_without_document_opens) against the lelwel-ls binary over stdio"""
    fixed = [
        ('several_entries', [('o', 0, 1), ('c', 0, [2, 3]), ('r', 'hover', 0, 0, 3)]),
        ('no_entry', [('o', 0, 1), ('c', 0, []), ('r', 'hover', 0, 0, 3), ('c', 0, [4]), ('r', 'completion', 0, 0, 3)]),
        ('request_without_document', [('r', 'hover', 1, 0, 0)]),
        ('request_after_close', [('o', 1, 5), ('x', 1), ('r', 'completion', 1, 0, 3)]),
        ('change_without_open', [('c', 2, [4, 6]), ('r', 'hover', 2, 0, 3)]),
        ('empty_change_without_open', [('c', 3, []), ('o', 3, 7), ('r', 'hover', 3, 0, 3)]),
    ]
    hs = fixed + [('random', multi_history(st, rng, 12)) for _ in range(25 if quick else 200)]
    mo = run_model(st.text_lines() + [st.model_line(h) for _, h in hs])
    bad = []
    for k, ((name, h), ml) in enumerate(zip(hs, mo)):
        outs = ml.split(' | ')[1].split(';')
        stats['stdio_sessions'] += 1
        stats['stdio_messages'] += len(h)
        for op in h:
            if op[0] == 'c':
                stats['stdio_change_entries_%d' % len(op[2])] += 1
        d, died = stdio_run(st, h, outs, work, 'm%03d' % k)
        if died:
            stats['stdio_sessions_server_died_as_model_says'] += 1
        if d is not None:
            bad.append({'kind': 'stdio_' + name, 'history': h, 'model': ml, 'what': d})
    findings = [
        {'id': 'LSP-F3', 'what': 'a request for a document that is not open kills the server (Cache::hover etc. unwrap the map lookup); model: theorems '
         'C20_request_without_document_crashes, C20_request_on_closed_document_refuted; outside the protocol-conformant histories; confirmed on lelwel-ls in this run: %s'
         % (not [b for b in bad if 'request' in b['kind']])},
    ]
    return bad, findings


# ---------------------------------------------------------------- (iv) end to end through ide::Cache

def e2e_texts(rng, n):
    deco = ['', ' ', '/* é */ ', '/*\U0001F600*/', '\r\n ', '\n', '/* 日\U0001F600 */\r\n', '\t']
    out = []
    for _ in range(n):
        k = rng.randrange(2, 7)
        names = ['T%d' % i for i in range(k)]
        body = ''
        for nm in names:
            body += rng.choice(deco) + nm + rng.choice([' ', ' ', '\r\n', ' /* \U0001F600é */ '])
        head = rng.choice(['', '// \U0001F600é\r\n', '/* é */'])
        out.append(head + 'token ' + ' '.join(names) + ';' + rng.choice(['\n', '\r\n']) + 'start s;' + rng.choice(['\n', '\r\n', ' ']) + 's:' + body + ';' + rng.choice(['\n', '', '\r\n']))
    return out


def check_e2e(rng, quick, docs_dir, stats):
    """hover at every position of the rule's lines: range == model(o2p) of the identifier holding model(p2o)"""
    u = 'file://' + os.path.join(docs_dir, 'e2e.llw')
    texts = e2e_texts(rng, 40 if quick else 400)
    hs, meta = [], []
    for t in texts:
        doc = k6.Doc(t)
        rule_at = t.index('s:')
        first = t[:rule_at].count('\n')
        ps = [p for p in positions_for(rng, t, 10 ** 9) if first <= p[0] < MAXNAT and p[1] < MAXNAT]
        if len(ps) > (60 if quick else 120):
            ps = rng.sample(ps, 60 if quick else 120)
        hs.append([{'op': 'open', 'uri': u, 'text': t}] + [req('hover', u, l, c) for (l, c) in ps])
        meta.append((t, ps, rule_at))
    ans = k6.run_inproc(hs, workers=8)
    lines = []
    for i, (t, ps, _) in enumerate(meta):
        lines.append('T %d %s' % (i, cps(t)))
        lines.append('P %d %s' % (i, ' '.join('%d %d' % p for p in ps)))
    mo = run_model(lines)
    bad = []
    for i, ((t, ps, rule_at), a) in enumerate(zip(meta, ans)):
        offs = [int(w.split(':')[0]) for w in mo[i].split()]
        doc = k6.Doc(t)
        rule_b = len(t[:rule_at].encode('utf-8'))
        # identifiers of the rule body by byte span (comments skipped)
        spans = []
        for m in re.finditer(r'/\*.*?\*/|//[^\n]*|T\d+', t[rule_at:], re.S):
            if m.group(0).startswith('T'):
                s = rule_b + len(t[rule_at:rule_at + m.start()].encode('utf-8'))
                spans.append((s, s + len(m.group(0).encode('utf-8'))))
        olines = ['T 0 ' + cps(t), 'O 0 ' + ' '.join('%d %d' % sp for sp in spans)]
        mpos = [w.split(':')[0] for w in run_model(olines)[0].split()]
        for j, (p, off) in enumerate(zip(ps, offs)):
            if j + 1 >= len(a) or 'result' not in a[j + 1] or a[j + 1].get('dead_thread'):
                bad.append({'kind': 'e2e_no_answer', 'text': t, 'position': list(p), 'answer': a[j + 1] if j + 1 < len(a) else None})
                break
            hit = [k for k, (s, e) in enumerate(spans) if s <= off < e]
            if not hit:
                continue
            stats['e2e_hovers_on_identifiers'] += 1
            k = hit[0]
            sl, sc = map(int, mpos[2 * k].split(','))
            el, ec = map(int, mpos[2 * k + 1].split(','))
            want = {'start': {'line': sl, 'character': sc}, 'end': {'line': el, 'character': ec}}
            res = a[j + 1]['result']
            got = res.get('range') if isinstance(res, dict) else None
            first = re.search(r'\*\*First:\*\* \{(.*?)\}', res['contents']['value']).group(1) if isinstance(res, dict) else None
            name = t.encode('utf-8')[spans[k][0]:spans[k][1]].decode()
            if got != want or first != name:
                bad.append({'kind': 'e2e_hover', 'text': t, 'position': list(p), 'model_offset': off, 'identifier': name, 'model_range': want, 'impl_range': got, 'impl_first': first})
        stats['e2e_texts'] += 1
    return bad


# ---------------------------------------------------------------- entry point

def run(ck, work, realistic=(), rng=None):
    """runs the four parts; returns (disagreements, findings, coverage dict).
    rng: the one random.Random of this correspondence (default: derived from the run's seed)"""
    stats = collections.Counter()
    timing = {}
    t0 = time.time()
    timing['build_model'] = round(build(), 1)
    quick = ck.tier == 'quick'
    if rng is None:
        import random
        rng = random.Random(ck.seed * 1000003 + 2020)
    docs = os.path.join(work, 'mdocs')
    os.makedirs(docs, exist_ok=True)
    t1 = time.time()
    bad = check_positions(rng, quick, list(realistic), stats)
    timing['positions'] = round(time.time() - t1, 1)
    t1 = time.time()
    b2, st = check_store(rng, quick, docs, stats)
    bad += b2
    timing['store'] = round(time.time() - t1, 1)
    t1 = time.time()
    b3, findings = check_content_changes(st, rng, quick, work, stats)
    bad += b3
    timing['stdio'] = round(time.time() - t1, 1)
    t1 = time.time()
    bad += check_e2e(rng, quick, docs, stats)
    timing['end_to_end'] = round(time.time() - t1, 1)
    timing['total'] = round(time.time() - t0, 1)
    cov = {'counts': dict(stats), 'timing_s': timing, 'disagreements': len(bad)}
    return bad, findings, cov


if __name__ == '__main__':
    import sys
    import tempfile
    import shutil
    lv.build_impl(bins=True)
    w = tempfile.mkdtemp(prefix='lv_lspmodel_')
    try:
        ck = lv.Check('C20model', 'proof')
        bad, findings, cov = run(ck, w, k6.FRAGMENTS)
        print(json.dumps(cov, indent=1, ensure_ascii=False))
        for f in findings:
            print('finding:', f['id'], f['what'][:160])
        for b in bad[:10]:
            print('DISAGREEMENT', json.dumps(b, ensure_ascii=False)[:600])
        sys.exit(1 if bad else 0)
    finally:
        shutil.rmtree(w, ignore_errors=True)
