"""C12, C13, C17, C18: the grammar-file front end (lexer, parser, analysis) and the formatter,
driven in-process through `lv-harness front` (K4) and through the real `llw` binary.

Every oracle is evaluated on the real implementation's output.  Conventions as in checks.py:
`check_<id>(work, args)` builds /repo's current working tree, explores, writes the evidence
through lv.Check and exits 0/1.

Known findings (known_findings.json) are matched by *class predicates* (CLASSES below).  A failing
case is attributed to a finding only if the finding is listed for the property AND its predicate
holds for the case; everything else is a violation.  Predicates of classes that are not listed in
known_findings.json are only used to group violations (one replay file per class)."""
import array
import collections
import hashlib
import json
import multiprocessing
import os
import re
import shutil
import subprocess
import sys
import time
from concurrent.futures import ThreadPoolExecutor

import k4_fmtmodel
import k4_front as k4
import k4_lexmodel
import lv

NPROC = max(1, min(16, os.cpu_count() or 1))
WS = ' \t\r\n\x0c'            # the lexer's whitespace: [ \t\r\n\f]
MAX_VIOLATIONS = 3


# ================================================================== small helpers

def nonws(s):
    return ''.join(c for c in s if c not in WS)


def text_hash(t):
    return int.from_bytes(hashlib.blake2b(t.encode('utf-8', 'surrogatepass'), digest_size=8).digest(), 'big')


def len_bucket(n):
    if n == 0:
        return '0'
    lo = 1
    while lo * 4 <= n:
        lo *= 4
    return '%d-%d' % (lo, lo * 4 - 1)


def timeout_for(texts):
    m = max([len(t) for t in texts] or [0])
    return max(10000, 10 * m)


def on_boundary(b, off):
    return 0 <= off <= len(b) and (off == len(b) or (b[off] & 0xC0) != 0x80)


def code_of(d):
    if d.get('code'):
        return d['code']
    m = d.get('message', '')
    if m.startswith('invalid syntax'):
        return 'syntax'
    return 'lex:' + m


def diag_keys(ds):
    return sorted((d.get('code', ''), d.get('message', '')) for d in ds)


def sig_tokens(text, toks):
    """tokens and comments of a text, ignoring Whitespace tokens and a comment's trailing newline"""
    b = text.encode('utf-8')
    out = []
    for kd, s, e in toks:
        if kd == 'Whitespace':
            continue
        x = b[s:e].decode('utf-8', 'replace')
        if kd in ('LineComment', 'DocComment') and x.endswith('\n'):
            x = x[:-1]
        out.append((kd, x.rstrip(WS) if kd in ('LineComment', 'DocComment') else x))
    return out


def status_of(r):
    if r.get('hang'):
        return 'hang'
    if r.get('crash'):
        return 'crash'
    if not k4.ok_result(r):
        return 'garbled'
    return 'ok'


def is_valid(r):
    """syntactically valid: lexer + parser drew no diagnostic"""
    return status_of(r) == 'ok' and isinstance(r['parse'], list) and not r['parse']


# ================================================================== class predicates

def cst_open_indent(cst):
    """rule declarations that have their ':' but not their ';' and brackets that have '(' / '['
    but not ')' / ']' in the tree the parser recovered: the formatter opens an indentation at the
    former token and closes it at the latter"""
    res = []
    stack = []

    def close(n):
        _, kd, ch = n
        if kd in ('rule_decl', 'return') and 'Colon' in ch and 'Semi' not in ch:
            res.append('rule_decl without ;')
        if kd in ('paren', 'optional'):
            o = sum(1 for c in ch if c in ('LPar', 'LBrak'))
            c2 = sum(1 for c in ch if c in ('RPar', 'RBrak'))
            if o != c2:
                res.append('unclosed bracket')
    for d, rt, kd, s, e in cst:
        while stack and stack[-1][0] >= d:
            close(stack.pop())
        if rt == 'token':
            if stack and stack[-1][0] == d - 1:
                stack[-1][2].append(kd)
        else:
            stack.append((d, kd, []))
    while stack:
        close(stack.pop())
    return res


def token_stream_unbalanced(toks):
    """the token stream has an unclosed '(' / '[' or a rule colon with no ';' before the next
    declaration keyword / colon / end of text (the stream-level reading of class D13)"""
    kinds = [x[0] for x in toks if x[0] not in k4.TRIVIA]
    stack = []
    for kd in kinds:
        if kd in ('LPar', 'LBrak'):
            stack.append(kd)
        elif kd == 'RPar' and stack and stack[-1] == 'LPar':
            stack.pop()
        elif kd == 'RBrak' and stack and stack[-1] == 'LBrak':
            stack.pop()
    if stack:
        return True
    open_colon = False
    for kd in kinds:
        if kd == 'Colon':
            if open_colon:
                return True
            open_colon = True
        elif kd == 'Semi':
            open_colon = False
        elif kd in k4.DECL_KW and open_colon:
            return True
    return open_colon


def pred_format_unbalanced_indent(text, r):
    """D13: the text has a syntax error and its rule declaration lacks the ';' or a '(' / '[' is
    unclosed (in the token stream, or - when error recovery ate the closing token, e.g. `a: K ] ;` -
    in the recovered tree), and the panic is dprint-core's indentation assertion"""
    if status_of(r) != 'ok' or not isinstance(r['parse'], list) or not r['parse']:
        return False
    f = r.get('format')
    if not k4.is_panic(f) or 'indentation level was not zero' not in f.get('msg', ''):
        return False
    toks = r['tokens'].get('toks', []) if isinstance(r['tokens'], dict) else []
    cst = r['cst'] if isinstance(r['cst'], list) else []
    return token_stream_unbalanced(toks) or bool(cst_open_indent(cst))


def pred_format_tab_or_newline_in_item(text, r):
    """(not a recorded finding) a comment, string or error token contains a tab, or a block comment
    spans several lines: the formatter hands the lexeme to dprint-core as one string item and
    dprint-core's debug assertion on tabs/newlines inside string items fires"""
    if status_of(r) != 'ok':
        return False
    f = r.get('format')
    if not k4.is_panic(f) or not ('Found a tab in the string' in f.get('msg', '') or 'Found a newline in the string' in f.get('msg', '')):
        return False
    b = text.encode('utf-8')
    for kd, s, e in (r['tokens'].get('toks', []) if isinstance(r['tokens'], dict) else []):
        if kd == 'Whitespace':
            continue
        lx = b[s:e]
        if kd in ('LineComment', 'DocComment'):
            lx = lx[:-1]
        if b'\t' in lx or b'\n' in lx:
            return True
    return False


def bracket_depth(toks):
    d = m = 0
    for x in toks:
        if x[0] in ('LPar', 'LBrak'):
            d += 1
            m = max(m, d)
        elif x[0] in ('RPar', 'RBrak'):
            d = max(0, d - 1)
    return m


def pred_format_indent_overflow(text, r):
    """(not a recorded finding) brackets nested 120 deep or more: dprint-core keeps the indentation
    level in a u8 and the formatter indents twice per bracket"""
    if status_of(r) != 'ok' or not isinstance(r['tokens'], dict):
        return False
    f = r.get('format')
    if not k4.is_panic(f) or not ('attempt to add with overflow' in f.get('msg', '') or 'finish_indent was called without' in f.get('msg', '')):
        return False
    return bracket_depth(r['tokens']['toks']) >= 120


def _first_after(toks, i):
    j = i + 1
    while j < len(toks) and toks[j][0] == 'Whitespace':
        j += 1
    return j if j < len(toks) else None


def pred_format_comment_after_colon(y, ry):
    """D10, evaluated on the text y whose formatting is not a fixed point: a comment token is the
    first non-whitespace token after a rule's ':' and starts on a later line than the ':'"""
    if status_of(ry) != 'ok' or not isinstance(ry['tokens'], dict):
        return False
    toks = ry['tokens']['toks']
    b = y.encode('utf-8')
    for i, (kd, s, e) in enumerate(toks):
        if kd == 'Colon':
            j = _first_after(toks, i)
            if j is not None and toks[j][0] in k4.COMMENTS and b'\n' in b[e:toks[j][1]]:
                return True
    return False


def pred_format_comment_after_open_bracket(y, ry):
    """(not a recorded finding) as D10 but the comment is the first token after a '(' or '['"""
    if status_of(ry) != 'ok' or not isinstance(ry['tokens'], dict):
        return False
    toks = ry['tokens']['toks']
    b = y.encode('utf-8')
    for i, (kd, s, e) in enumerate(toks):
        if kd in ('LPar', 'LBrak'):
            j = _first_after(toks, i)
            if j is not None and toks[j][0] in k4.COMMENTS and b'\n' in b[e:toks[j][1]]:
                return True
    return False


def pred_format_indented_file_level_comment(y, ry):
    """(not a recorded finding) at file level a comment stands on its own line and is indented
    (the formatter itself produces this from a tab-indented comment: it only skips ' ' when it looks
    for the start of the line)"""
    if status_of(ry) != 'ok' or not isinstance(ry['cst'], list):
        return False
    top = [n for n in ry['cst'] if n[0] == 1]
    b = y.encode('utf-8')
    for i, n in enumerate(top):
        if n[1] == 'token' and n[2] in k4.COMMENTS and i > 0 and top[i - 1][1] == 'token' and top[i - 1][2] == 'Whitespace':
            ws = b[top[i - 1][3]:top[i - 1][4]]
            after_line_comment = i >= 2 and top[i - 2][1] == 'token' and top[i - 2][2] in ('LineComment', 'DocComment')
            if (b'\n' in ws or i == 1 or after_line_comment) and not ws.endswith(b'\n'):
                return True
    return False


def pred_format_block_comment_before_decl(y, ry):
    """at file level a block comment is followed on the same line (possibly after token lists, which
    are not a `Decl` for the formatter) by a declaration: the formatter only asks for a line break
    before a declaration once it has seen white space on that line, and it is the formatter itself
    that puts a blank after the comment"""
    if status_of(ry) != 'ok' or not isinstance(ry['cst'], list):
        return False
    top = [n for n in ry['cst'] if n[0] == 1]
    b = y.encode('utf-8')
    for i, n in enumerate(top):
        if n[1] == 'token' and n[2] == 'BlockComment':
            j = i + 1
            prev_end = n[4]
            while j < len(top):
                m = top[j]
                if b'\n' in b[prev_end:m[3]]:
                    break
                if m[1] == 'token' and m[2] == 'Whitespace':
                    if b'\n' in b[m[3]:m[4]]:
                        break
                elif m[1] == 'rule' and m[2] != 'token_list':
                    return True
                prev_end = m[4]
                j += 1
    return False


def off_boundary_labels(text, r):
    """[(message, start, end)] of the diagnostic labels that are in range but off a character boundary"""
    b = text.encode('utf-8')
    out = []
    for stage in ('tokens', 'parse', 'sema'):
        v = r.get(stage)
        ds = v.get('diags', []) if isinstance(v, dict) and 'diags' in v else (v if isinstance(v, list) else [])
        for d in ds:
            for l in d.get('labels', []):
                s_, e_ = l['start'], l['end']
                if 0 <= s_ <= e_ <= len(b) and not (on_boundary(b, s_) and on_boundary(b, e_)):
                    out.append((d.get('message', ''), s_, e_))
    return out


def pred_escape_span_multibyte(text, r):
    """(not a recorded finding) every off-boundary diagnostic span is the 2-byte span of an 'invalid
    escape sequence' whose escaped character is a multi-byte character (`'\\é'`)"""
    if status_of(r) != 'ok':
        return False
    b = text.encode('utf-8')
    labs = off_boundary_labels(text, r)
    return bool(labs) and all(m == 'invalid escape sequence' and e_ == s_ + 2 and b[s_:s_ + 1] == b'\\' and b[s_ + 1] >= 0x80 for m, s_, e_ in labs)


def pred_line_comment_at_eof_without_newline(text, res):
    """D28, on a result of _gen_batch (C13): the text does not end in a newline, its last line holds `//` outside any
    string or comment (two adjacent Slash tokens of the real lexer: the comment that lacks its closing newline), the
    one and only syntax diagnostic sits on the first of these two slashes, and every other diagnostic (lexer errors
    drawn by the comment's own text) lies behind it"""
    if text.endswith('\n') or not isinstance(res, dict):
        return False
    toks, fp = res.get('front_tokens'), res.get('front_parse')
    if not isinstance(toks, list) or not isinstance(fp, list):
        return False
    line_start = len(text[:text.rfind('\n') + 1].encode('utf-8'))
    p = None
    for a, b in zip(toks, toks[1:]):
        if a[0] == 'Slash' and b[0] == 'Slash' and a[2] == b[1] and a[1] >= line_start:
            p = a[1]
            break
    if p is None or not any(t[0] not in k4.TRIVIA for t in toks if t[2] <= p):
        return False
    syn = [d for d in fp + list(res.get('syntax') or []) if d.get('message', '').startswith('invalid syntax')]
    if not syn or any([(l['start'], l['end']) for l in d.get('labels', [])] != [(p, p + 1)] for d in syn):
        return False
    if sum(1 for d in fp if d.get('message', '').startswith('invalid syntax')) != 1:
        return False
    return all(l['start'] >= p for d in fp for l in d.get('labels', []))


# class name -> (kind of failure it explains, predicate)
CLASSES = {
    'invalid_escape_span_multibyte': ('diag_span_boundary', pred_escape_span_multibyte),
    'stack_overflow_deep_nesting': ('cli_abnormal_exit', lambda text, r: False),
    'format_unbalanced_indent': ('format_panic', pred_format_unbalanced_indent),
    'format_tab_or_newline_in_item': ('format_panic', pred_format_tab_or_newline_in_item),
    'format_indent_overflow': ('format_panic', pred_format_indent_overflow),
    'format_comment_after_colon': ('not_idempotent', pred_format_comment_after_colon),
    'format_comment_after_open_bracket': ('not_idempotent', pred_format_comment_after_open_bracket),
    'format_block_comment_before_decl': ('not_idempotent', pred_format_block_comment_before_decl),
    'format_indented_file_level_comment': ('not_idempotent', pred_format_indented_file_level_comment),
    'line_comment_at_eof_without_newline': ('syntax_error', pred_line_comment_at_eof_without_newline),
}


def classes_for(kind, text, r):
    return [c for c, (kd, p) in CLASSES.items() if kd == kind and p(text, r)]


class Findings:
    """the entries of known_findings.json that are recorded for this property and carry a text witness"""

    def __init__(self, pid):
        self.pid = pid
        self.entries = [e for e in lv.known_findings()
                        if pid in e.get('properties', []) and e.get('class') in CLASSES and 'text' in (e.get('witness') or {})]
        self.by_class = {}
        for e in self.entries:
            self.by_class.setdefault(e['class'], e)
        self.hits = collections.Counter()

    def match(self, classes):
        for c in classes:
            if c in self.by_class:
                return self.by_class[c]['id']
        return None


# ================================================================== oracles (lists of texts -> verdicts)
# a verdict is None (the property held on the text) or
#   {'kind': short key, 'what': description, 'classes': [class names whose predicate holds]}

def c12_problems(text, r):
    st = status_of(r)
    if st == 'hang':
        return [('hang', 'the front end did not finish within the time limit')]
    if st != 'ok':
        return [(st, 'the front end process died or produced no result (%s)' % json.dumps(r)[:200])]
    b = text.encode('utf-8')
    n = len(b)
    probs = []
    for stage in ('tokens', 'parse', 'cst', 'sema', 'render'):
        v = r.get(stage)
        if k4.is_panic(v):
            probs.append(('panic_' + stage, '%s panicked: %s' % ({'tokens': 'lexing', 'parse': 'parsing', 'cst': 'walking the syntax tree',
                                                                 'sema': 'semantic analysis', 'render': 'rendering a diagnostic'}[stage], v.get('msg', '')[:200])))
    if isinstance(r.get('render'), dict) and 'error' in r['render']:
        probs.append(('render_error', 'diagnostic #%s cannot be rendered: %s' % (r['render'].get('index'), r['render']['error'])))
    # token spans tile the text
    if isinstance(r['tokens'], dict) and 'toks' in r['tokens']:
        pos = 0
        for kd, s, e in r['tokens']['toks']:
            if s != pos or e <= s or e > n:
                probs.append(('token_tiling', 'token spans do not tile the text: %s %d..%d after offset %d (text has %d bytes)' % (kd, s, e, pos, n)))
                break
            if not on_boundary(b, s) or not on_boundary(b, e):
                probs.append(('token_boundary', 'token span %s %d..%d is not on character boundaries' % (kd, s, e)))
                break
            pos = e
        else:
            if pos != n:
                probs.append(('token_tiling', 'token spans end at %d but the text has %d bytes' % (pos, n)))
    # diagnostics
    seen = set()
    for stage in ('tokens', 'parse', 'sema'):
        v = r.get(stage)
        ds = v.get('diags', []) if isinstance(v, dict) and 'diags' in v else (v if isinstance(v, list) else [])
        for d in ds:
            for l in d.get('labels', []):
                s, e = l['start'], l['end']
                key = (s, e)
                if key in seen:
                    continue
                seen.add(key)
                if not (0 <= s <= e <= n):
                    probs.append(('diag_span_range', 'diagnostic %r has span %d..%d outside the text (%d bytes)' % (d.get('message', '')[:60], s, e, n)))
                elif not on_boundary(b, s) or not on_boundary(b, e):
                    probs.append(('diag_span_boundary', 'diagnostic %r has span %d..%d off a character boundary' % (d.get('message', '')[:60], s, e)))
    # tree spans
    if isinstance(r.get('cst'), list):
        for d, rt, kd, s, e in r['cst']:
            if not (0 <= s <= e <= n) or not on_boundary(b, s) or not on_boundary(b, e):
                probs.append(('cst_span', 'syntax tree node %s has span %d..%d outside the text or off a character boundary (%d bytes)' % (kd, s, e, n)))
                break
    return probs


def verdict_c12(text, r):
    probs = c12_problems(text, r)
    if not probs:
        return None
    kinds = set(p[0] for p in probs)
    return {'kind': probs[0][0], 'what': '; '.join(p[1] for p in probs[:3]),
            'classes': classes_for('diag_span_boundary', text, r) if kinds == {'diag_span_boundary'} else []}


def verdict_c17_chars(text, r):
    st = status_of(r)
    if st == 'hang':
        return {'kind': 'hang', 'what': 'formatting (or the front end before it) did not finish within the time limit', 'classes': []}
    if st != 'ok':
        return {'kind': st, 'what': 'the process died or produced no result (%s)' % json.dumps(r)[:200], 'classes': []}
    f = r.get('format')
    if f is None:
        return None        # the parser panicked: C12's business, nothing to format
    if k4.is_panic(f):
        return {'kind': 'format_panic', 'what': 'the formatter panicked: %s' % f.get('msg', '')[:200],
                'classes': classes_for('format_panic', text, r)}
    a, b = nonws(text), nonws(f)
    if a != b:
        i = 0
        while i < min(len(a), len(b)) and a[i] == b[i]:
            i += 1
        return {'kind': 'chars_changed', 'what': 'the formatter changed the non-whitespace characters: input …%r, output …%r (at non-whitespace character %d)'
                % (a[max(0, i - 10):i + 10], b[max(0, i - 10):i + 10], i), 'classes': []}
    return None


def verdict_c17_layout(text, r, y, ry):
    """text is syntactically valid; y = format(text) (a string), ry = the front end on y"""
    if status_of(ry) != 'ok':
        return {'kind': 'formatted_' + status_of(ry), 'what': 'the front end hangs or dies on the formatter\'s output', 'classes': []}
    if not isinstance(ry['tokens'], dict) or not isinstance(ry['parse'], list) or not isinstance(ry['sema'], list):
        return {'kind': 'formatted_panic', 'what': 'the front end panics on the formatter\'s output', 'classes': []}
    ta, tb = sig_tokens(text, r['tokens']['toks']), sig_tokens(y, ry['tokens']['toks'])
    if ta != tb:
        i = 0
        while i < min(len(ta), len(tb)) and ta[i] == tb[i]:
            i += 1
        return {'kind': 'tokens_changed', 'what': 'the formatted file lexes to a different sequence of tokens/comments: at #%d input has %r, output has %r'
                % (i, ta[i:i + 3], tb[i:i + 3]), 'classes': []}
    if ry['parse']:
        return {'kind': 'formatted_invalid', 'what': 'the formatted file has a syntax error: %s' % ry['parse'][0].get('message', '')[:120], 'classes': []}
    da, db = diag_keys(r['sema']), diag_keys(ry['sema'])
    if da != db:
        only_a = [x for x in da if x not in db][:2]
        only_b = [x for x in db if x not in da][:2]
        return {'kind': 'diagnostics_changed', 'what': 'the formatted file draws different diagnostics (%d vs %d): only before %r, only after %r'
                % (len(da), len(db), only_a, only_b), 'classes': []}
    return None


def c18_fails(r):
    """does the in-process idempotence comparison fail on this (syntactically valid) case?"""
    f, f2 = r.get('format'), r.get('format2')
    return isinstance(f, str) and (k4.is_panic(f2) or f2 != f)


def verdict_c18(text, r, ry):
    """text is syntactically valid.  ry = the front end on y = format(text) (needed for failures only)"""
    f, f2 = r.get('format'), r.get('format2')
    if not isinstance(f, str):
        return None    # a panic of the first formatting is C17's business
    if k4.is_panic(f2):
        return {'kind': 'format2_panic', 'what': 'formatting the formatter\'s output panicked: %s' % f2.get('msg', '')[:160],
                'classes': classes_for('format_panic', f, ry), 'y': f}
    if f2 != f:
        i = 0
        while i < min(len(f), len(f2)) and f[i] == f2[i]:
            i += 1
        return {'kind': 'not_idempotent', 'what': 'formatting the formatter\'s output changes it again: first …%r, second …%r'
                % (f[max(0, i - 20):i + 20], f2[max(0, i - 20):i + 20]), 'classes': classes_for('not_idempotent', f, ry), 'y': f}
    return None


def second_pass(rs, idx):
    """the front end on the formatter's output of the cases idx -> {i: result}"""
    ys = [rs[i]['format'] for i in idx]
    return dict(zip(idx, k4.run_front(ys, timeout_for(ys)))) if idx else {}


def oracle(pid, texts):
    """the per-text oracle of a property on arbitrary texts (used for shrinking, witnesses, replay).
    C17: character-level claim on every text + token/semantic claims when the text is syntactically
    valid.  C18: idempotence when the text is syntactically valid."""
    rs = k4.run_front(texts, timeout_for(texts))
    out = []
    if pid == 'C12':
        return [verdict_c12(t, r) for t, r in zip(texts, rs)]
    if pid == 'C17':
        rys = second_pass(rs, [i for i, r in enumerate(rs) if is_valid(r) and isinstance(r.get('format'), str)])
        for i, (t, r) in enumerate(zip(texts, rs)):
            v = verdict_c17_chars(t, r)
            if v is None and i in rys:
                v = verdict_c17_layout(t, r, r['format'], rys[i])
            out.append(v)
        return out
    if pid == 'C18':
        rys = second_pass(rs, [i for i, r in enumerate(rs) if is_valid(r) and c18_fails(r)])
        for i, (t, r) in enumerate(zip(texts, rs)):
            if status_of(r) != 'ok':
                out.append({'kind': status_of(r), 'what': 'the formatter or the front end before it hangs or dies', 'classes': []})
            elif not is_valid(r):
                out.append(None)
            else:
                out.append(verdict_c18(t, r, rys.get(i)))
        return out
    raise ValueError(pid)


# ================================================================== shrinking

def _same_failure(v, ref, kf):
    if v is None or v['kind'] != ref['kind']:
        return False
    # stay in the same (un)attributed class
    return kf.match(v['classes']) == kf.match(ref['classes']) and sorted(v['classes']) == sorted(ref['classes'])


def shrink(pid, text, ref, kf, budget=4000, seconds=60):
    """greedy deletion of lines, tokens, then characters while the oracle fails in the same way
    (bounded: at most `budget` oracle evaluations and `seconds` of wall time)"""
    spent = 0
    deadline = time.time() + seconds

    def attempt(cands):
        nonlocal spent
        cands = [c for c in cands if c != text]
        if not cands:
            return None
        if time.time() > deadline:
            spent = budget
            return None
        spent += len(cands)
        vs = oracle(pid, cands)
        for c, v in zip(cands, vs):
            if _same_failure(v, ref, kf):
                return c
        return None

    def pieces_of(t, mode):
        if mode == 'line':
            return t.splitlines(True)
        if mode == 'decl':
            return re.findall(r'[^;\n]*[;\n]|[^;\n]+$', t)
        if mode == 'char':
            return list(t)
        tk = k4.tokenize_all([t])[0]
        return [x[1] for x in tk] if tk is not None else list(t)
    modes = ['line', 'decl', 'token', 'char', 'token', 'char']
    before = None
    while modes and spent < budget:
        mode = modes.pop(0)
        if not modes and before != text:
            modes = ['token', 'char']           # repeat until nothing changes any more
        before = text
        if mode == 'char' and len(text) > 200:
            continue
        parts = pieces_of(text, mode)
        size = max(1, len(parts) // 2)
        while size >= 1 and spent < budget:
            i = 0
            window = 8
            while i < len(parts) and spent < budget:
                # the next candidates: delete parts[j:j+size] for a window of positions j >= i
                js = list(range(i, len(parts), size))[:window]
                cands = [''.join(parts[:j] + parts[j + size:]) for j in js]
                hit = attempt(cands)
                if hit is None:
                    i = js[-1] + size
                    window = min(64, window * 2)
                else:
                    j = js[cands.index(hit)]
                    text = hit
                    parts = parts[:j] + parts[j + size:]
                    i = j
                    window = max(2, window // 2) if j == js[0] else window
            if mode == 'token':
                parts = pieces_of(text, mode)     # deleting tokens may have merged lexemes
            size //= 2
    # small leftovers: every contiguous window of tokens, largest first
    improved = True
    while improved and spent < budget:
        improved = False
        parts = pieces_of(text, 'token')
        if len(parts) > 40:
            break
        cands = [''.join(parts[:i] + parts[i + n:]) for n in range(len(parts) - 1, 0, -1) for i in range(0, len(parts) - n + 1)]
        for lo in range(0, len(cands), 200):
            hit = attempt(cands[lo:lo + 200])
            if hit is not None:
                text = hit
                improved = True
                break
    return text


# ================================================================== mass evaluation (worker side)

def _new_agg():
    return {'n': 0, 'gen': collections.Counter(), 'len_hist': collections.Counter(), 'valid': collections.Counter(),
            'codes': collections.Counter(), 'fmt': collections.Counter(), 'fmt_panic_msgs': collections.Counter(),
            'status': collections.Counter(), 'fail_kinds': collections.Counter(), 'fail_groups': collections.Counter(), 'fails': [], 'nontrivial': array.array('Q'),
            'samples': [], 'extra': collections.Counter()}


def _merge(a, b):
    a['n'] += b['n']
    for key in ('gen', 'len_hist', 'valid', 'codes', 'fmt', 'fmt_panic_msgs', 'status', 'fail_kinds', 'fail_groups', 'extra'):
        a[key].update(b[key])
    a['fails'] += b['fails']
    a['nontrivial'].extend(b['nontrivial'])
    for smp in b['samples']:
        if sum(1 for x in a['samples'] if x.get('generator') == smp.get('generator')) < 3:
            a['samples'].append(smp)
    return a


def _common_stats(agg, gen, text, r):
    agg['n'] += 1
    agg['gen'][gen] += 1
    agg['len_hist'][len_bucket(len(text.encode('utf-8')))] += 1
    st = status_of(r)
    agg['status'][st] += 1
    if st != 'ok':
        return 0
    valid = is_valid(r)
    agg['valid'][gen] += 1 if valid else 0
    ds = r['sema'] if isinstance(r['sema'], list) else (r['parse'] if isinstance(r['parse'], list) else [])
    for c in set(code_of(d) for d in ds):
        agg['codes'][c] += 1
    if not ds:
        agg['codes']['(none)'] += 1
    f = r.get('format')
    if isinstance(f, str):
        agg['fmt']['unchanged' if f == text else 'changed'] += 1
    elif k4.is_panic(f):
        agg['fmt']['panic'] += 1
        agg['fmt_panic_msgs'][f.get('msg', '')[:70]] += 1
    else:
        agg['fmt']['not_run'] += 1
    toks = r['tokens'].get('toks', []) if isinstance(r['tokens'], dict) else []
    return sum(1 for x in toks if x[0] != 'Whitespace')


def _texts_of(job):
    if job['gen'] == 'seq':
        return k4.seq_range(job['n'], job['lo'], job['hi'])
    return job['texts']


def _fail(agg, gen, text, v, cap=40):
    agg['fail_kinds'][v['kind'] + ('[' + ','.join(v['classes']) + ']' if v['classes'] else '')] += 1
    agg['fail_groups'][json.dumps([v['kind'], v['classes']])] += 1
    # keep the shortest few per (kind, classes)
    if sum(1 for f in agg['fails'] if f['kind'] == v['kind'] and f['classes'] == v['classes']) < cap:
        agg['fails'].append({'text': text, 'gen': gen, 'kind': v['kind'], 'what': v['what'], 'classes': v['classes'], 'y': v.get('y')})


def job_any_text(job):
    """C12 / C17(character level): arbitrary texts"""
    pid = job['pid']
    texts = _texts_of(job)
    gen = job['gen']
    rs = k4.run_front(texts, timeout_for(texts))
    agg = _new_agg()
    for t, r in zip(texts, rs):
        nsig = _common_stats(agg, gen, t, r)
        v = verdict_c12(t, r) if pid == 'C12' else verdict_c17_chars(t, r)
        if pid == 'C12' and status_of(r) == 'ok':
            # observations outside C12's statement, for the evidence
            f = r.get('format')
            if k4.is_panic(f):
                cl = classes_for('format_panic', t, r)
                agg['extra']['format_stage_panic[' + (','.join(cl) or 'unclassified') + ']'] += 1
            if isinstance(r.get('cst'), list) and isinstance(r['tokens'], dict):
                leaves = [[n[2], n[3], n[4]] for n in r['cst'] if n[1] == 'token']
                agg['extra']['cst_leaves_equal_tokens' if leaves == r['tokens']['toks'] else 'cst_leaves_differ_from_tokens'] += 1
        if v is not None:
            _fail(agg, gen, t, v)
        # non-trivial: at least two non-whitespace tokens and the run produced a verdict on every stage
        if nsig >= 2:
            agg['nontrivial'].append(text_hash(t))
        if len(agg['samples']) < 2 and nsig >= 3 and len(t) <= 400:
            agg['samples'].append({'generator': gen, 'text': t, 'diagnostics': [code_of(d) for d in (r['sema'] if isinstance(r.get('sema'), list) else [])][:6],
                                   'format': r.get('format') if isinstance(r.get('format'), str) else 'panic'})
    agg['nontrivial'] = agg['nontrivial'].tobytes()
    return agg


def job_layouts(job):
    """C17 (token / semantic claims) and C18 (idempotence): syntactically valid files in random layouts"""
    pid = job['pid']
    texts = job['texts']
    gen = job['gen']
    rs = k4.run_front(texts, timeout_for(texts))
    agg = _new_agg()
    ys = {}
    if pid == 'C17':
        ys = second_pass(rs, [i for i, r in enumerate(rs) if is_valid(r) and isinstance(r.get('format'), str)])
    else:
        ys = second_pass(rs, [i for i, r in enumerate(rs) if is_valid(r) and c18_fails(r)])
    for i, (t, r) in enumerate(zip(texts, rs)):
        nsig = _common_stats(agg, gen, t, r)
        st = status_of(r)
        v = None
        if st != 'ok':
            v = {'kind': st, 'what': 'the formatter or the front end before it hangs or dies', 'classes': []}
        elif not is_valid(r):
            agg['extra']['not_syntactically_valid_skipped(%s)' % gen] += 1
            if gen == 'layout' and len(agg['samples']) < 3:
                agg['samples'].append({'generator': gen, 'text': t, 'note': 'syntax error: ' + (r['parse'][0].get('message', '')[:100] if isinstance(r['parse'], list) else 'parser panic')})
            continue
        elif pid == 'C17':
            v = verdict_c17_chars(t, r)
            if v is None and i in ys:
                v = verdict_c17_layout(t, r, r['format'], ys[i])
            if v is None:
                agg['extra']['token_and_diagnostic_comparisons'] += 1
        else:
            v = verdict_c18(t, r, ys.get(i))
            if isinstance(r.get('format'), str):
                agg['extra']['idempotence_comparisons'] += 1
                if r['format'] != t:
                    agg['extra']['first_formatting_changed_the_text'] += 1
        has_comment = any(x[0] in k4.COMMENTS for x in r['tokens']['toks']) if st == 'ok' and isinstance(r['tokens'], dict) else False
        agg['extra']['cases_with_comments' if has_comment else 'cases_without_comments'] += 1
        if v is not None:
            _fail(agg, gen, t, v)
            agg['extra']['failing_cases_with_comments' if has_comment else 'failing_cases_without_comments'] += 1
        if nsig >= 8:
            agg['nontrivial'].append(text_hash(t))
        if len(agg['samples']) < 1 and len(t) <= 600:
            agg['samples'].append({'generator': gen, 'text': t, 'format': r.get('format') if isinstance(r.get('format'), str) else 'panic',
                                   'diagnostics': [code_of(d) for d in (r['sema'] if isinstance(r.get('sema'), list) else [])][:6]})
    agg['nontrivial'] = agg['nontrivial'].tobytes()
    return agg


def pmap(fn, jobs):
    if not jobs:
        return []
    if NPROC == 1 or len(jobs) == 1:
        return [fn(j) for j in jobs]
    ctx = multiprocessing.get_context('fork')
    with ctx.Pool(NPROC) as pool:
        return pool.map(fn, jobs, chunksize=1)


def run_jobs(fn, jobs):
    agg = _new_agg()
    agg['nontrivial'] = array.array('Q')
    for a in pmap(fn, jobs):
        b = array.array('Q')
        b.frombytes(a['nontrivial'])
        a['nontrivial'] = b
        _merge(agg, a)
    return agg


# ================================================================== input sets

def chunks(xs, n):
    return [xs[i:i + n] for i in range(0, len(xs), n)]


def seq_jobs(pid, maxn, per_job=6000):
    jobs = [{'pid': pid, 'gen': 'seq', 'n': 0, 'lo': 0, 'hi': 1}]
    for n in range(1, maxn + 1):
        total = k4.seq_count(n)
        for lo in range(0, total, per_job):
            jobs.append({'pid': pid, 'gen': 'seq', 'n': n, 'lo': lo, 'hi': min(total, lo + per_job)})
    return jobs


_REPO_SOURCES = []


def repo_sources():
    """[(path, text, tokens, syntactically valid)] of the repo's .llw files (distinct texts), lexed by the real lexer"""
    if not _REPO_SOURCES:
        files = k4.repo_llw_texts()
        rs = pmap(_front_one, [t for _, t in files])
        for (p, t), r in zip(files, rs):
            if status_of(r) == 'ok' and isinstance(r['tokens'], dict):
                _REPO_SOURCES.append((p, t, k4.spans_text(t, r['tokens']['toks']), is_valid(r)))
    return _REPO_SOURCES


def _front_one(t):
    r = k4.run_front([t], timeout_for([t]) * 3)[0]
    # only what repo_sources needs (keeps the pickles small)
    return {'tokens': r.get('tokens'), 'parse': r.get('parse'), 'hang': r.get('hang'), 'crash': r.get('crash')} if k4.ok_result(r) else r


def mutant_jobs(pid, rng, quick):
    jobs = []
    for path, text, toks, _valid in repo_sources():
        n = len(text)
        big = n > 3000
        texts = [text]
        if quick:
            nm = 8 if big else 40
            step = max(1, len(toks) // (6 if big else 120))
        else:
            nm = 60 if big else 600
            step = max(1, len(toks) // (40 if big else 2000))
        texts += [k4.mutant(rng, toks)[0] for _ in range(nm)]
        texts += k4.truncations(toks, step)
        texts += k4.deletions(toks, step)
        per = 4 if big else 150
        for c in chunks(texts, per):
            jobs.append({'pid': pid, 'gen': 'mutant', 'texts': c})
    return jobs


def nested_text(d, kind):
    """a valid grammar whose start rule nests d brackets: kind '(' , '[' or 'mixed'"""
    if kind == 'mixed':
        o = ''.join('([('[i % 3] for i in range(d))
        c = ''.join({'(': ')', '[': ']'}[x] for x in reversed(o))
    else:
        o, c = kind * d, {'(': ')', '[': ']'}[kind] * d
    return 'token A;\nstart s;\ns: %sA%s;\n' % (o, c)


NEST_DEPTHS = (1, 8, 64, 126, 127, 128, 200, 400)


def nesting_jobs(pid):
    texts = [nested_text(d, k_) for d in NEST_DEPTHS for k_ in ('(', '[', 'mixed')]
    return [{'pid': pid, 'gen': 'nesting', 'texts': c} for c in chunks(texts, 6)]


def soup_jobs(pid, rng, count, per_job=3000):
    texts = [k4.soup(rng) for _ in range(count)]
    return [{'pid': pid, 'gen': 'soup', 'texts': c} for c in chunks(texts, per_job)]


def layout_sources(rng, n_random):
    """[(origin, [(kind, lexeme)])]: token lists of grammar texts whose layouts are explored"""
    texts = [k4.written_text(k4.random_written(rng)) for _ in range(n_random)]
    toks = k4.tokenize_all(texts)
    out = [('random', tk) for tk in toks if tk is not None]
    for p, t, tk, valid in repo_sources():
        if valid:
            out.append((p, tk))
    return out


def layout_jobs(pid, rng, quick, include_repo_files=False):
    n_random = 400 if quick else 1500
    srcs = layout_sources(rng, n_random)
    jobs = []
    small, big = [], []
    for origin, tk in srcs:
        size = sum(len(x[1]) for x in tk)
        if origin == 'random':
            nl = 8 if quick else 16
        elif size > 3000:
            nl = 2 if quick else 10
        else:
            nl = 6 if quick else 40
        for _ in range(nl):
            (big if size > 3000 else small).append(k4.relayout(rng, tk))
    for c in chunks(small, 100):
        jobs.append({'pid': pid, 'gen': 'layout', 'texts': c})
    for c in chunks(big, 2):
        jobs.append({'pid': pid, 'gen': 'layout', 'texts': c})
    if include_repo_files:
        files = [t for _, t in k4.repo_llw_texts()]
        smallf = [t for t in files if len(t) <= 3000]
        bigf = [t for t in files if len(t) > 3000]
        for c in chunks(smallf, 20) + chunks(bigf, 2):
            jobs.append({'pid': pid, 'gen': 'repo_file', 'texts': c})
    return jobs


# ================================================================== verdict and evidence

def settle(ck, pid, agg, kf, extra_fails=None, valid_only=False):
    """attribute failures to known findings, shrink and report the rest (at most MAX_VIOLATIONS,
    one per class / kind), re-run the witnesses of the recorded findings"""
    fails = list(agg['fails']) + list(extra_fails or [])
    # counts over ALL failing cases (the list `fails` keeps only some representatives per batch)
    total = attributed = 0
    counts = {}
    for key, cnt in agg['fail_groups'].items():
        kind, classes = json.loads(key)
        total += cnt
        kid = kf.match(classes)
        if kid is not None:
            kf.hits[kid] += cnt
            attributed += cnt
        else:
            counts[(kind, tuple(classes))] = cnt
    unknown = [f for f in fails if kf.match(f['classes']) is None]
    # one representative per (kind, classes): unclassified failures first, then single classes, then
    # combinations (skipped when each of their classes is already shown on its own)
    groups = collections.OrderedDict()
    for f in sorted(unknown, key=lambda f: (len([c for c in f['classes'] if c not in kf.by_class]), len(f['text']))):
        groups.setdefault((f['kind'], tuple(f['classes'])), []).append(f)
    for (kind, classes) in list(groups):
        if len(classes) > 1 and all((kind, (c,)) in groups for c in classes):
            del groups[(kind, classes)]
    reported = 0
    for (kind, classes), fs in groups.items():
        if reported >= MAX_VIOLATIONS:
            break
        f = fs[0]
        ref = {'kind': f['kind'], 'classes': f['classes']}
        try:
            small = shrink(pid, f['text'], ref, kf) if 'cli' not in f else f['text']
            v = oracle(pid, [small])[0] if 'cli' not in f else None
        except Exception as e:      # shrinking is best effort
            lv.log('shrink failed: %r' % e)
            small, v = f['text'], None
        what = (v or f)['what']
        ck.violation('%s%s [generator: %s; %d failing cases of this kind in this run]'
                     % (what, (' (unrecorded class: %s)' % ', '.join(classes)) if classes else '', f['gen'], counts.get((kind, classes), len(fs))),
                     {'text': small, 'original_text': f['text'], 'kind': kind, 'classes': list(classes), 'generator': f['gen'],
                      'formatter_output': (v or f).get('y'), 'cli': f.get('cli')})
        reported += 1
    # recorded findings: the witness still fails -> KNOWN-FINDING line
    for e in kf.entries:
        try:
            v = oracle(pid, [e['witness']['text']])[0]
        except Exception as ex:
            lv.log('witness of %s could not be evaluated: %r' % (e['id'], ex))
            continue
        if v is None and e['class'] == 'stack_overflow_deep_nesting':
            # only the real binary (8 MB main stack) shows this one: the witness is replayed through `llw -c`
            import tempfile
            d = tempfile.mkdtemp(prefix='lv_d22_')
            try:
                code, err = cli_check_case((os.path.join(d, 'w'), e['witness']['text']))
            finally:
                import shutil
                shutil.rmtree(d, ignore_errors=True)
            if code not in (0, 1) and 'overflowed its stack' in err:
                ck.known.append('%s: %s: `llw -c` aborts with a stack overflow on a grammar with %d nested brackets'
                                % (e['id'], e['class'], e['witness']['text'].count('(')))
            continue
        if v is not None and e['class'] in v['classes']:
            w = e['witness']['text']
            ck.known.append('%s: %s on %r: %s' % (e['id'], e['class'], w if len(w) < 120 else w[:60] + '…' + w[-30:], v['what'][:300]))
        elif v is not None:
            lv.log('witness of %s fails but outside its class: %s' % (e['id'], v['what']))
    return {'failing_cases': total, 'attributed_to_known_findings': dict(kf.hits), 'unattributed_failing_cases': total - attributed,
            'unattributed_by_kind': {'%s[%s]' % (k_, ','.join(c)): v for (k_, c), v in counts.items()}}


def base_cov(agg, rule, settled):
    distinct = len(set(agg['nontrivial']))
    return {
        'evaluations': agg['n'],
        'distinct_nontrivial': distinct,
        'rule': rule,
        'samples': agg['samples'][:12],
        'cases_per_generator': dict(agg['gen']),
        'text_length_histogram_bytes': dict(sorted(agg['len_hist'].items(), key=lambda kv: int(kv[0].split('-')[0]))),
        'syntactically_valid_per_generator': dict(agg['valid']),
        'cases_drawing_diagnostic_code': dict(agg['codes'].most_common()),
        'formatter_output_vs_input': dict(agg['fmt']),
        'formatter_panic_messages': dict(agg['fmt_panic_msgs']),
        'run_status': dict(agg['status']),
        'failure_kinds': dict(agg['fail_kinds']),
        'other_observations': dict(agg['extra']),
        'known_findings': settled,
    }


TRUST = ['tools/k4_front.py generators and tools/checks_front.py oracles (Python)', 'harness/src/front.rs (calls the public API of /repo in-process, debug build with debug assertions)',
         'the harness lexes with /repo\'s own lexer when it builds mutants and layouts (generators only; oracles compare against the text itself)']


def replay_path(args):
    if args and '--replay' in args:
        return args[args.index('--replay') + 1]
    return None


def do_replay(ck, pid, path):
    """re-evaluate the oracle on the text of a replay file; neither the evidence nor the replay files are rewritten"""
    j = json.load(open(path))
    text = j['replay']['text'] if isinstance(j.get('replay'), dict) else j['text']
    v = oracle(pid, [text])[0]
    kf = Findings(pid)
    replay_verdict(pid, path, v, kf.match(v['classes']) if v is not None else None)


def replay_verdict(pid, path, v, known_id):
    if v is None:
        lv.log('replay: the property holds on this case now')
        sys.exit(0)
    if known_id is not None:
        print('KNOWN-FINDING: property=%s %s: %s' % (pid, known_id, v['what'][:300]))
        sys.exit(0)
    lv.log('violation: ' + v['what'])
    print('VIOLATION property=%s replay=%s' % (pid, path))
    sys.stdout.flush()
    sys.exit(1)


# ================================================================== C12

def cli_check_case(arg):
    """`llw -c` (the real binary, 8 MB main thread stack) on one text: lexing, parsing, analysis and the
    rendering of every diagnostic as the user gets them"""
    d, text = arg
    os.makedirs(d, exist_ok=True)
    open(os.path.join(d, 'f.llw'), 'wb').write(text.encode('utf-8'))
    try:
        r = subprocess.run([lv.LLW_BIN, '-c', 'f.llw'], cwd=d, stdout=subprocess.PIPE, stderr=subprocess.PIPE, timeout=120)
        code, err = r.returncode, r.stderr.decode('utf-8', 'replace')
    except subprocess.TimeoutExpired:
        code, err = 'timeout', ''
    shutil.rmtree(d, ignore_errors=True)
    return code, err[-600:]


def c12_cli_probe(ck, work, quick):
    """returns (failures, stats): texts on which `llw -c` does not end with status 0 or 1"""
    rng = ck.rng
    texts = [('nesting', nested_text(d, k_)) for d in (100, 400, 2000, 6000) for k_ in ('(', '[')]
    texts += [('soup', k4.soup(rng)) for _ in range(60 if quick else 600)]
    texts += [('seq', k4.seq_text(3, rng.randrange(k4.seq_count(3)))) for _ in range(60 if quick else 600)]
    texts += [('hand', t) for t in ("token A='\\é';\nstart s;\ns: A;\n", "a :", "'\\\U0001F600'", "", "é", "start")]
    with ThreadPoolExecutor(NPROC) as ex:
        outs = list(ex.map(cli_check_case, [(os.path.join(work, 'cli12', str(i)), t) for i, (g, t) in enumerate(texts)]))
    fails = []
    stats = collections.Counter()
    for (g, t), (code, err) in zip(texts, outs):
        stats['exit_%s' % code] += 1
        if code not in (0, 1):
            deep = t.count('(') + t.count('[') >= 1000 and 'overflowed its stack' in err
            what = '`llw -c` %s on a %d byte text%s: %s' % ('did not finish within 120 s' if code == 'timeout' else 'ended with status %s' % code, len(t.encode('utf-8')),
                                                        (' (%d nested brackets)' % max(t.count('('), t.count('['))) if g == 'nesting' else '', err.strip().replace('\n', ' ')[-200:])
            fails.append({'text': t, 'gen': g + '/cli', 'kind': 'cli_abnormal_exit', 'what': what,
                          'classes': ['stack_overflow_deep_nesting'] if deep else [], 'cli': True})
    return fails, dict(stats)


def check_C12(work, args):
    ck = lv.Check('C12', 'exploration')
    lv.build_impl(bins=True)
    if replay_path(args):
        do_replay(ck, 'C12', replay_path(args))
    quick = ck.tier == 'quick'
    maxn = 3 if quick else 4
    jobs = mutant_jobs('C12', ck.rng, quick) + nesting_jobs('C12') + soup_jobs('C12', ck.rng, 30000 if quick else 400000) + seq_jobs('C12', maxn)
    agg = run_jobs(job_any_text, jobs)
    kf = Findings('C12')
    # C12's statement is about lexing, parsing and analysis; panics of the formatter stage that the harness
    # also runs are judged by C17 and only recorded here (D13 is listed for C12 for that purpose)
    cli_fails, cli_stats = c12_cli_probe(ck, work, quick)
    for f in cli_fails:
        agg['fail_kinds'][f['kind'] + ('[' + ','.join(f['classes']) + ']' if f['classes'] else '')] += 1
        agg['fail_groups'][json.dumps([f['kind'], f['classes']])] += 1
    settled = settle(ck, 'C12', agg, kf, extra_fails=cli_fails)
    # the parser stage tied to the Coq model: lelwel's own generated parser (as checked in) against Exec.v on token sequences
    import checks as _checks
    tie = _checks.frontend_parser_tie(ck, work, 150 if quick else 3000)
    for pr in tie['problems'][:3]:
        ck.violation(pr['what'], pr, no_input=('tokens' not in pr))
    for e in kf.entries:
        r = k4.run_front([e['witness']['text']])[0]
        if CLASSES[e['class']][0] == 'format_panic' and CLASSES[e['class']][1](e['witness']['text'], r):
            ck.known.append('%s: (formatter stage, judged by C17) %s on %r: formatter panicked: %s'
                            % (e['id'], e['class'], e['witness']['text'], r['format'].get('msg', '')[:160]))
    lexcov = k4_lexmodel.check_hook(ck, 'C12', k4_lexmodel.sample_job_texts(jobs, ck.rng, 3000 if quick else 60000))
    ck.cov = base_cov(agg, 'texts: (a) ALL sequences of up to %d items from %d representative lexemes, each joined with "" and with " " (exhaustive); '
                      '(b) the repo\'s .llw files, their token-level mutants (delete/duplicate/insert/swap/truncate, 1-3 operations), truncations at token '
                      'boundaries and single-token deletions; (c) random character soup (ASCII, multi-byte, string/comment openers); (e) valid grammars with 1..400 '
                      'nested brackets; plus `llw -c` (the real binary: exit status 0 or 1 demanded) on nested brackets up to 6000 deep and a sample of (a),(c). Oracle on the real front end: '
                      'no panic/hang in lexing, parsing, tree walk, analysis and rendering of every diagnostic with codespan-reporting; token spans tile the text on '
                      'character boundaries; every diagnostic label and tree node span lies in the text on character boundaries. '
                      'non-trivial = at least 2 non-whitespace tokens; distinct by text (64-bit hash)' % (maxn, len(k4.LEXEMES)), settled)
    ck.cov.update(lexcov)
    ck.cov['exhaustive_part'] = 'generator (a): every sequence of at most %d lexemes x 2 joiners (%d texts)' % (maxn, sum(k4.seq_count(n) for n in range(maxn + 1)))
    ck.cov['lexemes'] = k4.LEXEMES
    ck.cov['cli_probe'] = cli_stats
    ck.cov['parser_stage_model_tie'] = {k: v for k, v in tie.items() if k != 'problems'}
    ck.cov['parser_stage_model_tie']['problems'] = len(tie['problems'])
    ck.assumptions = TRUST + ['a watchdog of 10 s (more for long texts) stands for non-termination', 'the harness thread has a 256 MB stack; stack depth is only probed through the real binary (`llw -c`, 8 MB main thread)']
    ck.finish()


# ================================================================== C17

def check_C17(work, args):
    ck = lv.Check('C17', 'exploration')
    lv.build_impl(bins=True)
    if replay_path(args):
        do_replay(ck, 'C17', replay_path(args))
    quick = ck.tier == 'quick'
    maxn = 3 if quick else 4
    jobs = mutant_jobs('C17', ck.rng, quick) + nesting_jobs('C17') + soup_jobs('C17', ck.rng, 30000 if quick else 400000) + seq_jobs('C17', maxn)
    agg = run_jobs(job_any_text, jobs)
    ljobs = layout_jobs('C17', ck.rng, quick)
    agg2 = run_jobs(job_layouts, ljobs)
    n_layout = agg2['n']
    comparisons = agg2['extra'].get('token_and_diagnostic_comparisons', 0)
    _merge(agg, agg2)
    kf = Findings('C17')
    settled = settle(ck, 'C17', agg, kf)
    lexcov = k4_lexmodel.check_hook(ck, 'C17', k4_lexmodel.sample_job_texts(jobs + ljobs, ck.rng, 3000 if quick else 60000))
    ck.cov = base_cov(agg, 'character-level claim on texts (a) all sequences of up to %d of %d lexemes x 2 joiners, (b) repo .llw files and their token-level mutants/truncations/'
                      'deletions, (c) character soup: format() returns without panic/hang and keeps the non-whitespace characters in order. Token/semantic claims on (d) '
                      'syntactically valid files (random grammars incl. token symbols with escapes, and the repo\'s valid .llw files) re-joined with random whitespace and '
                      'comments: the output lexes to the same tokens and comments, parses without syntax error and draws the same (code, message) multiset. '
                      'non-trivial = at least 2 (texts) / 8 (layouts) non-whitespace tokens; distinct by text (64-bit hash)' % (maxn, len(k4.LEXEMES)), settled)
    ck.cov.update(lexcov)
    ck.cov.update(k4_fmtmodel.check_hook(ck, 'C17', k4_fmtmodel.sample_jobs(jobs + ljobs, ck.rng, 1500 if quick else 40000, total_bytes=400000 if quick else 8000000)))
    ck.cov['layout_cases'] = n_layout
    ck.cov['layout_cases_compared_tokens_and_diagnostics'] = comparisons
    ck.cov['exhaustive_part'] = 'generator (a): every sequence of at most %d lexemes x 2 joiners (%d texts)' % (maxn, sum(k4.seq_count(n) for n in range(maxn + 1)))
    ck.assumptions = TRUST + ['debug build of /repo and dprint-core: debug assertions count as panics', 'whitespace = the lexer\'s [ \\t\\r\\n\\f]']
    ck.finish()


# ================================================================== C18

def llw(args, cwd):
    r = subprocess.run([lv.LLW_BIN] + args, cwd=cwd, stdout=subprocess.PIPE, stderr=subprocess.PIPE, timeout=600)
    return r.returncode, r.stderr.decode('utf-8', 'replace')[-400:]


def cli_case(arg):
    """the real binary on one syntactically valid text x with the in-process results fx = format(x), ffx = format(fx)"""
    d, x, fx, ffx = arg
    os.makedirs(d, exist_ok=True)
    p = os.path.join(d, 'f.llw')
    xb = x.encode('utf-8')
    open(p, 'wb').write(xb)
    probs = []
    e1, err1 = llw(['-f', '-c', 'f.llw'], d)
    after = open(p, 'rb').read()
    if after != xb:
        probs.append(('check_mode_modified_file', '`llw -f -c` modified the file'))
    want = 0 if fx == x else 1
    if e1 != want:
        probs.append(('check_mode_exit', '`llw -f -c` exits %d on a file that formatting would %s (in-process format(x) %s x)%s'
                      % (e1, 'not change' if want == 0 else 'change', '==' if want == 0 else '!=', (': ' + err1[-200:]) if e1 not in (0, 1) else '')))
    open(p, 'wb').write(xb)
    e2, err2 = llw(['-f', 'f.llw'], d)
    y = open(p, 'rb').read().decode('utf-8', 'replace')
    if e2 != 0:
        probs.append(('format_exit', '`llw -f` exits %d: %s' % (e2, err2[-200:])))
    elif y != fx:
        probs.append(('cli_differs_from_library', '`llw -f` wrote something else than format() returns in-process'))
    e3, err3 = llw(['-f', '-c', 'f.llw'], d)
    idem_fail = None
    if e2 == 0 and e3 != 0:
        idem_fail = 'after `llw -f f.llw`, `llw -f -c f.llw` exits %d%s' % (e3, (': ' + err3[-200:]) if e3 != 1 else '')
    shutil.rmtree(d, ignore_errors=True)
    return probs, idem_fail, (e3 == 0) == (ffx == fx) if e2 == 0 else True


def check_C18(work, args):
    ck = lv.Check('C18', 'exploration')
    lv.build_impl(bins=True)
    if replay_path(args):
        do_replay(ck, 'C18', replay_path(args))
    quick = ck.tier == 'quick'
    jobs = layout_jobs('C18', ck.rng, quick, include_repo_files=True)
    agg = run_jobs(job_layouts, jobs)
    kf = Findings('C18')

    # ---- the real binary on a sample of the cases (and on every repo file)
    pool = []
    for j in jobs:
        if j['gen'] == 'repo_file':
            pool += [('repo_file', t) for t in j['texts']]
    lay = [t for j in jobs if j['gen'] == 'layout' for t in j['texts'] if len(t) < 4000]
    pool += [('layout', t) for t in ck.rng.sample(lay, min(len(lay), 60 if quick else 600))]
    # witnesses of recorded findings and hand-written unformatted/formatted files
    pool += [('hand', "token A B;\nstart s;\ns: A | B;\n"), ('hand', "token   A B ;start s;s:A|B;"), ('hand', '')]
    texts = [t for _, t in pool]
    rs = k4.run_front(texts, timeout_for(texts))
    cli_in = []
    for i, ((g, t), r) in enumerate(zip(pool, rs)):
        if is_valid(r) and isinstance(r.get('format'), str) and isinstance(r.get('format2'), str):
            cli_in.append((g, t, r))
    with ThreadPoolExecutor(NPROC) as ex:
        outs = list(ex.map(cli_case, [(os.path.join(work, 'cli', str(i)), t, r['format'], r['format2']) for i, (g, t, r) in enumerate(cli_in)]))
    cli_fails = []
    cli_stats = collections.Counter()
    for (g, t, r), (probs, idem_fail, agree) in zip(cli_in, outs):
        cli_stats['files'] += 1
        cli_stats['check_mode_said_unformatted' if r['format'] != t else 'check_mode_said_formatted'] += 1
        if not agree:
            probs = probs + [('cli_idempotence_differs_from_library', 'the binary and the in-process formatter disagree on whether the formatted file is a fixed point')]
        for kind, what in probs:
            cli_stats['problem_' + kind] += 1
            cli_fails.append({'text': t, 'gen': g + '/cli', 'kind': kind, 'what': what, 'classes': [], 'cli': True})
        if idem_fail:
            cli_stats['format_then_check_fails'] += 1
            ry = k4.run_front([r['format']], timeout_for([r['format']]))[0]
            cli_fails.append({'text': t, 'gen': g + '/cli', 'kind': 'cli_not_idempotent', 'what': idem_fail,
                              'classes': classes_for('not_idempotent', r['format'], ry), 'cli': True, 'y': r['format']})
    # a CLI idempotence failure that the in-process comparison reports too is the same failure: keep the
    # in-process one (it can be shrunk) unless only the binary shows it
    inproc = set(f['text'] for f in agg['fails'])
    cli_fails = [f for f in cli_fails if not (f['kind'] == 'cli_not_idempotent' and f['text'] in inproc)]
    for f in cli_fails:
        agg['fail_kinds'][f['kind'] + ('[' + ','.join(f['classes']) + ']' if f['classes'] else '')] += 1
        agg['fail_groups'][json.dumps([f['kind'], f['classes']])] += 1
    settled = settle(ck, 'C18', agg, kf, extra_fails=cli_fails)
    ck.cov = base_cov(agg, '(d) syntactically valid grammar files - random grammars (gen_grammar, dressed with token symbols) and the repo\'s valid .llw files - re-joined '
                      'with random whitespace and comments (own-line comment after a rule colon, trailing comments, comments between declarations and inside brackets), '
                      'plus every repo .llw file as is: format(format(x)) == format(x) in-process; on a sample, the real binary: `llw -f -c x` exits 1 exactly when '
                      'format(x) != x and leaves the file alone, `llw -f x` writes format(x), then `llw -f -c x` exits 0. '
                      'non-trivial = syntactically valid with at least 8 non-whitespace tokens; distinct by text (64-bit hash)', settled)
    ck.cov.update(k4_fmtmodel.check_hook(ck, 'C18', k4_fmtmodel.sample_jobs(jobs, ck.rng, 1500 if quick else 40000, total_bytes=400000 if quick else 8000000)))
    ck.cov['cli'] = dict(cli_stats)
    ck.assumptions = TRUST + ['idempotence is checked per case, not proved (dprint-core\'s printer is not modelled)']
    ck.finish()


# ================================================================== C13

def _gen_batch(arg):
    sub, texts = arg
    os.makedirs(sub, exist_ok=True)
    jobs = []
    for i, t in enumerate(texts):
        p = os.path.join(sub, '%d.llw' % i)
        open(p, 'w', encoding='utf-8').write(t)
        jobs.append((p, os.path.join(sub, 'o%d' % i)))
    try:
        res = lv.harness_gen(jobs)
    except Exception:
        res = []
        for jb in jobs:
            try:
                res.append(lv.harness_gen([jb])[0])
            except Exception as e:
                res.append({'died': str(e)[-300:]})
    front = k4.run_front(texts, timeout_for(texts))
    shutil.rmtree(sub, ignore_errors=True)
    return [{'dump': r.get('dump'), 'panic': r.get('panic'), 'died': r.get('died'),
             'syntax': [d for d in r.get('diags', []) if not d.get('code')],
             'front_parse': f.get('parse') if k4.ok_result(f) else {'status': status_of(f)},
             'front_tokens': f['tokens'].get('toks') if (not t.endswith('\n') and k4.ok_result(f) and isinstance(f['tokens'], dict)) else None}
            for r, f, t in zip(res, front, texts)]


def c13_verdict(canon, expect_struct, res):
    """canon: canonical form of the written grammar (or None); expect_struct: demanded structure of rule s (or None)"""
    if res.get('died') or res.get('panic'):
        return {'kind': 'front_end_died', 'what': 'the front end panicked or died on a legal layout of a grammar'}
    fp = res['front_parse']
    syn = res['syntax'] or (fp if isinstance(fp, list) else [])
    if not isinstance(fp, list):
        return {'kind': 'front_end_died', 'what': 'the front end panicked, hung or died while parsing a legal layout (%s)' % json.dumps(fp)[:100]}
    if syn:
        return {'kind': 'syntax_error', 'what': 'a legal layout of a grammar draws a syntax error: %s' % syn[0].get('message', '')[:160]}
    dump = res['dump']
    if dump is None:
        return {'kind': 'no_typed_view', 'what': 'the typed view of the file has no root'}
    if canon is not None:
        got = k4.canonical(k4.dump_written(dump))
        if got != canon:
            for key in ('tokens', 'skip', 'right', 'start', 'part', 'rules'):
                if got[key] != canon[key]:
                    a, b = canon[key], got[key]
                    i = 0
                    while i < min(len(a), len(b)) and a[i] == b[i]:
                        i += 1
                    return {'kind': 'typed_view_differs', 'what': 'the typed view differs from the grammar that was written in %s #%d: written %r, read %r'
                            % (key, i, a[i] if i < len(a) else None, b[i] if i < len(b) else None)}
    if expect_struct is not None:
        rule = [r for r in dump['rules'] if r['name'] == 's']
        got = k4.strip_regex(rule[0]['regex']) if rule else None
        if got != expect_struct:
            return {'kind': 'nesting_differs', 'what': 'operator nesting of rule s differs: demanded %s, read %s' % (json.dumps(expect_struct), json.dumps(got))}
    return None


def check_C13(work, args):
    ck = lv.Check('C13', 'exploration')
    lv.build_impl(bins=True)
    if replay_path(args):
        rp = json.load(open(replay_path(args)))['replay']
        res = _gen_batch((os.path.join(work, 'replay'), [rp['text']]))[0]
        v = c13_verdict(rp.get('canon'), rp.get('struct'), res)
        replay_verdict('C13', replay_path(args), v, Findings('C13').match(classes_for(v['kind'], rp['text'], res)) if v else None)
    quick = ck.tier == 'quick'
    rng = ck.rng
    n_g = 600 if quick else 5000
    n_l = 4 if quick else 6
    cases = []     # (text, canon, expect_struct, origin, features)
    feats = collections.Counter()
    for _ in range(n_g):
        w = k4.random_written(rng)
        feats.update(w.features)
        cases.append({'written': k4.written_text(w), 'canon': k4.canonical(w), 'struct': None, 'origin': 'random'})
    for body, st in k4.PRECEDENCE_CASES:
        cases.append({'written': k4.precedence_file(body), 'canon': None, 'struct': st, 'origin': 'precedence'})
    toks = k4.tokenize_all([c['written'] for c in cases])
    items = []
    for c, tk in zip(cases, toks):
        items.append(dict(c, text=c['written'], layout='as printed'))
        if tk is None:
            continue
        for _ in range(n_l if c['origin'] == 'random' else 12):
            items.append(dict(c, text=k4.relayout(rng, tk, keep_comments=True), layout='random'))
    # D28: a line / doc comment behind the last token with no newline behind it (a handful per run, and the recorded witnesses)
    kf = Findings('C13')
    for it in [x for x in rng.sample(items, min(len(items), 8 if quick else 60))]:
        items.append(dict(it, text=k4.eof_comment_layout(rng, it['text']), layout='comment at end of file without newline'))
    for e in kf.entries:
        items.append({'written': e['witness']['text'], 'canon': None, 'struct': None, 'origin': 'witness ' + e['id'], 'text': e['witness']['text'], 'layout': 'witness'})
    batches = chunks(items, 60)
    results = pmap(_gen_batch, [(os.path.join(work, 'c13', str(i)), [it['text'] for it in b]) for i, b in enumerate(batches)])
    fails = []
    distinct = set()
    lens = collections.Counter()
    layouts_with_comments = 0
    nodes = collections.Counter()
    samples = []
    n = 0
    for b, rs in zip(batches, results):
        for it, res in zip(b, rs):
            n += 1
            lens[len_bucket(len(it['text'].encode('utf-8')))] += 1
            if '//' in it['text'] or '/*' in it['text']:
                layouts_with_comments += 1
            v = c13_verdict(it['canon'], it['struct'], res)
            if v is not None:
                v['classes'] = classes_for(v['kind'], it['text'], res)
                kid = kf.match(v['classes'])
                if kid is not None:
                    kf.hits[kid] += 1
                    if it['origin'] == 'witness ' + kid:
                        ck.known.append('%s: %s on %r: %s' % (kid, kf.by_class[v['classes'][0]]['class'], it['text'], v['what'][:300]))
                    continue
                fails.append(dict(v, text=it['text'], written=it['written'], origin=it['origin'], canon=it['canon'], struct=it['struct']))
            elif res.get('dump'):
                rules = res['dump']['rules']
                ops = 0
                for r in rules:
                    stack = [r['regex']] if r['regex'] else []
                    while stack:
                        x = stack.pop()
                        nodes[x['k']] += 1
                        ops += 1
                        stack += x.get('ops', []) or []
                        if x.get('op'):
                            stack.append(x['op'])
                if ops >= 5:
                    distinct.add(text_hash(it['text']))
            if len(samples) < 4 and it['layout'] == 'random' and n % 97 == 3:
                samples.append({'written': it['written'], 'layout': it['text'], 'verdict': v})
    if not samples and items:
        samples.append({'written': items[0]['written'], 'layout': items[-1]['text']})
    groups = collections.OrderedDict()
    for f in sorted(fails, key=lambda f: len(f['text'])):
        groups.setdefault(f['kind'], []).append(f)
    for kind, fs in list(groups.items())[:MAX_VIOLATIONS]:
        f = fs[0]
        ck.violation('%s [%d more failing layouts of this kind]' % (f['what'], len(fs) - 1),
                     {'text': f['text'], 'written_grammar': f['written'], 'kind': kind, 'origin': f['origin'],
                      'canon': f['canon'], 'struct': f['struct']})
    lexcov = k4_lexmodel.check_hook(ck, 'C13', k4_lexmodel.sample_job_texts([{'gen': 'c13_layout', 'texts': [it['text'] for it in items]}], ck.rng, 3000 if quick else 60000, per_job=10 ** 9))
    ck.cov = {
        'evaluations': n, 'distinct_nontrivial': len(distinct),
        'rule': 'random grammars (gen_grammar: alternation, ordered choice, concatenation, postfix, predicates, actions, assertions, renames, elisions, markers, '
                'creations, commit, return; dressed with token symbols incl. escaped quotes/backslashes, split token lists, shuffled declarations, extra operator '
                'nesting) printed with minimal parentheses, and %d hand-written precedence cases with the demanded nesting spelled out; each as printed and in random '
                'legal layouts (whitespace none/spaces/tabs/newlines/CRLF/form feed, line, doc and block comments in random gaps). Oracle: the real front end reports no '
                'lexical/syntax error and its typed view (ast.rs accessors via dump.rs), re-printed with the same printer, equals the written grammar: token names and '
                'symbols, skip/right/start/part lists, rule names, elision flags, bodies (nesting, names, numbers, symbols). '
                'non-trivial = accepted without syntax error and at least 5 operator/leaf nodes in the typed view; distinct by layout text' % len(k4.PRECEDENCE_CASES),
        'samples': samples, 'grammars_written': n_g, 'precedence_cases': len(k4.PRECEDENCE_CASES), 'layouts_per_grammar': n_l + 1,
        'layouts_containing_comments': layouts_with_comments, 'text_length_histogram_bytes': dict(lens),
        'typed_view_node_kinds_seen': dict(nodes), 'grammar_feature_histogram': dict(feats),
        'failing_layouts': len(fails), 'failure_kinds': {k_: len(v) for k_, v in groups.items()},
        'known_findings': {'layouts_ending_in_a_comment_without_newline': sum(1 for it in items if it['layout'] == 'comment at end of file without newline'),
                           'attributed_to_known_findings': dict(kf.hits)},
    }
    ck.cov.update(lexcov)
    ck.assumptions = TRUST + ['harness/src/dump.rs reads the typed view through the public ast.rs accessors', 'the reference is tools/k4_front.py\'s printer pp (minimal parentheses by precedence)']
    ck.finish()
