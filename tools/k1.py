#!/usr/bin/env python3
"""K1: builder-operation histories run on the real CstData (through the generated
driver) and on the extracted Cst.v/ABuild.v model; every op's result and the
whole builder state are compared after every op."""
import copy
import os
import random
import subprocess
import sys

import lv

K1_GRAMMAR = 'token A B Ws;\nskip Ws;\nstart f;\nf: A g;\ng: B;\n'
# token ids: EOF 0, Error 1, A 2, B 3, Ws 4 ; kinds: error 0, f 1, g 2


class Sim:
    """generation-side tracker (sizes only) used to pick mostly-valid arguments"""

    def __init__(self):
        self.frames = []   # innermost last; each: list of child sizes
        self.trail = 0
        self.snaps = []
        self.n = 0
        self.done = False

    def base(self):
        return sum(1 + sum(f) for f in self.frames[:-1])

    def length(self):
        return sum(1 + sum(f) for f in self.frames) + self.trail

    def flush(self):
        if self.frames:
            self.frames[-1] += [1] * self.trail
        self.trail = 0


def gen_history(rng, maxops=30, p_valid=0.92):
    s = Sim()
    ops = []
    nops = rng.randint(3, maxops)
    for _ in range(nops):
        if s.done:
            break
        valid = rng.random() < p_valid
        L = s.length()
        if not s.frames:
            if valid:
                ops.append('o')
                s.frames.append([])
                continue
        choice = rng.choice(['o', 'a', 'a', 'a', 'c', 'c', 'b', 'b', 's', 't', 'l', 'q', 'q'])
        if not valid:
            k = rng.choice(['c', 'b', 'r', 't', 'a', 'o', 'l', 'k', 'p', 'g'])
            if k == 'c':
                ops.append('c%d,%d' % (rng.randint(0, L + 1), rng.randint(0, 2)))
            elif k == 'b':
                ops.append('b%d' % rng.randint(0, L + 2))
            elif k == 'r':
                ops.append('r%d,%d' % (rng.randint(0, L + 1), rng.randint(0, 2)))
            elif k == 't':
                ops.append('t%d' % rng.randint(0, 2))
            elif k == 'a':
                ops.append('a%d,%d' % (rng.randint(2, 4), rng.randint(0, 1)))
            elif k in ('k', 'p', 'g'):
                ops.append('%s%d' % (k, rng.randint(0, L + 1)))
            else:
                ops.append(k)
            # the tracker is now unreliable; keep generating plausible ops anyway
            continue
        if choice == 'o':
            ops.append('o')
            s.flush()
            s.frames.append([])
        elif choice == 'a':
            skip = rng.random() < 0.35
            ops.append('a%d,%d' % (4 if skip else rng.randint(2, 3), 1 if skip else 0))
            if skip:
                s.trail += 1
            else:
                s.flush()
                s.frames[-1].append(1)
        elif choice == 'c':
            if len(s.frames) >= 2:
                m = s.base()
                ops.append('c%d,%d' % (m, rng.randint(0, 2)))
                f = s.frames.pop()
                s.frames[-1].append(1 + sum(f))
            elif len(s.frames) == 1 and rng.random() < 0.3:
                ops.append('r0,%d' % rng.randint(1, 2))
                s.done = True
        elif choice == 'b':
            if not s.frames:
                continue
            top = s.frames[-1]
            b = s.base()
            cands = []
            acc = 0
            for i in range(len(top) + 1):
                cands.append(('kid', i, b + 1 + acc))
                if i < len(top):
                    acc += top[i]
            if s.trail > 0:
                cands.append(('end', None, L))
            lim = max([sn[0] for sn in s.snaps], default=0)
            cands = [c for c in cands if c[2] >= lim]
            if not cands:
                continue
            kind, i, p = rng.choice(cands)
            ops.append('b%d' % p)
            if kind == 'kid':
                k2 = top[i:]
                s.frames[-1] = top[:i]
                s.frames.append(k2)
            else:
                s.flush()
                s.frames.append([])
        elif choice == 's':
            ops.append('s')
            s.snaps.insert(0, (L, copy.deepcopy(s.frames), s.trail))
        elif choice == 't':
            if s.snaps:
                i = rng.randrange(len(s.snaps))
                ops.append('t%d' % i)
                ln, fr, tr = s.snaps[i]
                s.frames = copy.deepcopy(fr)
                s.trail = tr
                s.snaps = s.snaps[i:]
        elif choice == 'l':
            if s.snaps:
                ops.append('l')
                s.snaps.pop(0)
        else:
            q = rng.choice(['k', 'p', 'g', 'm'])
            if q == 'm':
                ops.append('m')
            elif L > 0:
                ops.append('%s%d' % (q, rng.randrange(L)))
    if not s.done and s.frames and rng.random() < 0.7:
        # close everything
        while len(s.frames) >= 2:
            ops.append('c%d,%d' % (s.base(), rng.randint(0, 2)))
            f = s.frames.pop()
            s.frames[-1].append(1 + sum(f))
        ops.append('r0,1')
        L = s.length()
        for i in range(min(L, 6)):
            ops.append('k%d' % rng.randrange(L))
            ops.append('p%d' % rng.randrange(L))
    return ' '.join(ops)


def enumerate_histories(maxlen):
    """all op sequences up to maxlen over a small op alphabet with small arguments"""
    alphabet = ['o', 'a2,0', 'a4,1', 's', 't0', 'l']
    res = []

    def rec(prefix, depth, length_bound):
        if prefix:
            res.append(' '.join(prefix))
        if depth == 0:
            return
        n = length_bound
        ops = list(alphabet) + ['c%d,1' % i for i in range(n + 1)] + ['b%d' % i for i in range(n + 2)]
        for o in ops:
            rec(prefix + [o], depth - 1, length_bound + (1 if o[0] in 'oab' else 0))
    rec([], maxlen, 0)
    return res


_k1_cache = {}


def k1_driver(workdir):
    """build the real-code driver for the fixed K1 grammar from /repo's current back end"""
    d = os.path.join(workdir, 'k1g')
    os.makedirs(os.path.join(d, 'out'), exist_ok=True)
    open(os.path.join(d, 'g.llw'), 'w').write(K1_GRAMMAR)
    res = lv.harness_gen([(os.path.join(d, 'g.llw'), os.path.join(d, 'out'))])[0]
    if not res.get('wrote'):
        raise RuntimeError('K1 grammar not accepted: %s' % res)
    pb = lv.build_parser(os.path.join(d, 'out'), res)
    if not pb.rustc_ok:
        raise RuntimeError('K1 driver does not compile: ' + pb.rustc_err)
    return pb


def run_k1(pb, histories):
    inp = '\n'.join(histories) + '\n'
    ri = subprocess.run([pb.driver, 'k1'], input=inp, stdout=subprocess.PIPE, stderr=subprocess.PIPE, text=True, timeout=600)
    rm = subprocess.run([lv.MODEL_DRIVER, 'k1'], input=inp, stdout=subprocess.PIPE, stderr=subprocess.PIPE, text=True, timeout=600)

    def split(out):
        blocks = []
        cur = []
        for l in out.split('\n'):
            if l == 'END':
                blocks.append(cur)
                cur = []
            elif l:
                cur.append(l)
        return blocks
    bi, bm = split(ri.stdout), split(rm.stdout)
    if len(bi) != len(histories) or len(bm) != len(histories):
        raise RuntimeError('K1 drivers returned %d / %d blocks for %d histories\n%s\n%s' % (len(bi), len(bm), len(histories), ri.stderr[-500:], rm.stderr[-500:]))
    return bi, bm


def strip_model_line(l):
    # model lines carry ' gv=0/1' and close_root carries tree=… flat_eq=…
    import re
    l2 = re.sub(r' gv=[01]$', '', l)
    l2 = re.sub(r' tree=\S+ flat_eq=[01]', '', l2)
    return l2


def compare_k1(histories, bi, bm):
    """returns (disagreements, stats)"""
    import re
    dis = []
    stats = {'valid_complete': 0, 'panics': 0, 'invalid': 0, 'ops': 0, 'flat_eq_fail': 0}
    for h, a, b in zip(histories, bi, bm):
        b2 = [strip_model_line(x) for x in b]
        stats['ops'] += len(a)
        if a != b2:
            k = 0
            while k < min(len(a), len(b2)) and a[k] == b2[k]:
                k += 1
            dis.append({'history': h, 'first_diff_op': k, 'impl': a[k] if k < len(a) else None, 'model': b2[k] if k < len(b2) else None})
            continue
        if a and a[-1].endswith('PANIC'):
            stats['panics'] += 1
        last = b[-1] if b else ''
        gv = [x for x in b if ' gv=' in x]
        if gv and gv[-1].endswith('gv=1'):
            if any('flat_eq=1' in x for x in b):
                stats['valid_complete'] += 1
            if any('flat_eq=0' in x for x in b):
                stats['flat_eq_fail'] += 1
                dis.append({'history': h, 'model_internal': 'valid history but flatten(tree) != nodes'})
        else:
            stats['invalid'] += 1
    return dis, stats
