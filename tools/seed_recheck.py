#!/usr/bin/env python3
"""Re-run checks against a stored seeded change (after a check was strengthened):
apply seeded/<name>/patch.diff to /repo, run the checks, restore /repo; append the result to meta.json['recheck'].

usage: seed_recheck.py <name> <check ids,comma separated> [note]"""
import json
import os
import subprocess
import sys
import time

V = os.path.dirname(os.path.dirname(os.path.abspath(__file__)))


def sh(cmd, cwd=None, timeout=3600):
    r = subprocess.run(cmd, cwd=cwd, shell=isinstance(cmd, str), stdout=subprocess.PIPE, stderr=subprocess.STDOUT, text=True, timeout=timeout)
    return r.returncode, r.stdout


def main():
    name, checks = sys.argv[1], sys.argv[2].split(',')
    note = sys.argv[3] if len(sys.argv) > 3 else ''
    dst = os.path.join(V, 'seeded', name)
    mp = os.path.join(dst, 'meta.json')
    meta = json.load(open(mp))
    rc, o = sh('git -C /repo status --porcelain')
    if o.strip():
        print('refusing: /repo is not clean:', o)
        sys.exit(2)
    rc, o = sh('git -C /repo apply %s' % os.path.join(dst, 'patch.diff'))
    if rc != 0:
        print('patch does not apply', o)
        sys.exit(2)
    res = {}
    try:
        for c in checks:
            t = time.time()
            rc, o = sh(['./check', c, '--tier', 'quick'], cwd=V, timeout=3000)
            lines = [l for l in o.split('\n') if l.startswith('VIOLATION') or l.startswith('violation:')]
            res[c] = {'exit': rc, 'seconds': round(time.time() - t), 'lines': [l[:400] for l in lines[:4]]}
    finally:
        sh('git -C /repo checkout -- .')
    meta.setdefault('recheck', []).append({'note': note, 'checks': res, 'ran': ['./check %s --tier quick' % c for c in checks]})
    json.dump(meta, open(mp, 'w'), indent=1)
    print(name, {c: (r['exit'], (r['lines'] or [''])[0][:200]) for c, r in res.items()})


if __name__ == '__main__':
    main()
