#!/usr/bin/env python3
"""Generates the Rust driver that `include!`s an emitted generated.rs (so that the
private builder/runtime state is reachable) and runs op scripts (K1) or parses
token sequences (K3), printing one JSON line per case."""
import re
import json

TEMPLATE = r'''#![allow(warnings)]
use std::cell::RefCell;
use std::io::{BufRead, Write};

#[derive(Debug, Copy, Clone, PartialEq, Eq)]
#[allow(non_camel_case_types, clippy::upper_case_acronyms)]
pub enum Token { @TOKEN_VARIANTS@ }
const TOKEN_TABLE: &[Token] = &[@TOKEN_TABLE@];

pub struct Diagnostic { span: (usize, usize), msg: String }
#[derive(Default)]
pub struct Ctx { toks: Vec<Token>, bits: Vec<u8>, log: Vec<String> }

include!("@GENERATED@");

// Rule discriminant -> model kind id
const KIND_ID: &[usize] = &[@KIND_IDS@];
const RULE_OF_ID: &[Rule] = &[@RULE_OF_ID@];

fn subtree_ok(nodes: &[Node], i: usize) -> bool {
    // the cells i ..= i+off decode as exactly one tree
    fn one(nodes: &[Node], i: usize, end: usize) -> Option<usize> {
        if i >= end { return None; }
        match nodes[i] {
            Node::Token(..) => Some(i + 1),
            Node::Rule(_, off) => {
                let off = usize::from(off);
                let stop = i + 1 + off;
                if stop > end { return None; }
                let mut j = i + 1;
                while j < stop { j = one(nodes, j, stop)?; }
                Some(stop)
            }
        }
    }
    if i >= nodes.len() { return false; }
    match nodes[i] {
        Node::Token(..) => true,
        Node::Rule(_, off) => one(nodes, i, nodes.len()) == Some(i + 1 + usize::from(off)),
    }
}

impl<'a> Parser<'a> {
    fn v_oracle(&self, salt: usize, num: usize) -> bool {
        let bits = &self.context.bits;
        if bits.is_empty() { return false; }
        let upto = self.pos.min(self.tokens.len());
        let k = self.tokens[..upto].iter().filter(|t| !Self::is_skipped(**t)).count();
        // the answer also depends on what the parser's own lookahead functions return, so that peek / peek_left
        // are part of the correspondence (they must never show a skipped token)
        let la = (self.peek(0) as usize) * 7 + (self.peek(1) as usize) * 11 + (self.peek(2) as usize) * 13 + (self.peek_left(1) as usize) * 17;
        bits[(k * 5 + num * 3 + salt + la) % bits.len()] == b'1'
    }
    fn v_create(&mut self, kind: usize, node_ref: NodeRef) {
        let nodes = &self.cst.data.nodes;
        let (ak, aoff) = match nodes.get(node_ref.0) {
            Some(Node::Rule(r, off)) => (KIND_ID[*r as usize] as i64, usize::from(*off) as i64),
            Some(Node::Token(..)) => (-1, -1),
            None => (-2, -2),
        };
        let ok = subtree_ok(nodes, node_ref.0);
        self.context.log.push(format!("[\"c\",{},{},{},{},{}]", kind, node_ref.0, ak, aoff, ok));
    }
    fn v_delete(&mut self, kind: usize, node_ref: NodeRef) {
        self.context.log.push(format!("[\"d\",{},{}]", kind, node_ref.0));
    }
    fn v_action(&mut self, num: usize) {
        let p = self.pos;
        self.context.log.push(format!("[\"a\",{},{}]", num, p));
    }
}

impl<'a> ParserCallbacks<'a> for Parser<'a> {
    type Diagnostic = Diagnostic;
    type Context = Ctx;
    fn create_tokens(context: &mut Self::Context, _source: &'a str, _diags: &mut Vec<Self::Diagnostic>) -> (Vec<Token>, Vec<Span>) {
        let n = context.toks.len();
        (context.toks.clone(), (0..n).map(|i| i..i + 1).collect())
    }
    fn create_diagnostic(&self, span: Span, message: String) -> Self::Diagnostic {
        Diagnostic { span: (span.start, span.end), msg: message }
    }
@CALLBACKS@
}

fn json_str(s: &str) -> String {
    let mut o = String::from("\"");
    for c in s.chars() {
        match c {
            '"' => o.push_str("\\\""),
            '\\' => o.push_str("\\\\"),
            '\n' => o.push_str("\\n"),
            c if (c as u32) < 0x20 => o.push_str(&format!("\\u{:04x}", c as u32)),
            c => o.push(c),
        }
    }
    o.push('"');
    o
}

fn nodes_json(nodes: &[Node]) -> String {
    let mut s = String::from("[");
    for (i, n) in nodes.iter().enumerate() {
        if i > 0 { s.push(','); }
        match n {
            Node::Rule(r, off) => s.push_str(&format!("[0,{},{}]", KIND_ID[*r as usize], usize::from(*off))),
            Node::Token(t, idx) => s.push_str(&format!("[1,{},{}]", *t as usize, usize::from(*idx))),
        }
    }
    s.push(']');
    s
}

// depth-first walk through the public API only
fn walk(cst: &Cst<'_>, r: NodeRef, depth: usize, out: &mut String, budget: &mut usize) {
    if *budget == 0 { return; }
    *budget -= 1;
    if !out.is_empty() { out.push(','); }
    match cst.get(r) {
        Node::Rule(k, _) => {
            let sp = cst.span(r);
            out.push_str(&format!("[{},0,{},{},{},{}]", depth, KIND_ID[k as usize], r.0, sp.start, sp.end));
            for c in cst.children(r) { walk(cst, c, depth + 1, out, budget); }
        }
        Node::Token(t, idx) => {
            let sp = cst.span(r);
            out.push_str(&format!("[{},1,{},{},{},{}]", depth, t as usize, usize::from(idx), sp.start, sp.end));
        }
    }
}

fn run_case(line: &str) -> String {
    let parts: Vec<&str> = line.split('|').collect();
    if parts.len() != 4 { return "{\"r\":\"badline\"}".to_string(); }
    let hd: Vec<usize> = parts[0].split_whitespace().map(|x| x.parse().unwrap()).collect();
    let entry = hd[0];
    let bits: Vec<u8> = parts[2].trim().bytes().collect();
    let toks: Vec<Token> = parts[3].split_whitespace().map(|x| TOKEN_TABLE[x.parse::<usize>().unwrap()]).collect();
    let n = toks.len();
    let source: String = "x".repeat(n);
    let res = std::panic::catch_unwind(|| {
        let mut diags: Vec<Diagnostic> = vec![];
        let ctx = Ctx { toks, bits, log: vec![] };
        let src: &str = &source;
        let parser = Parser::new_with_context(src, &mut diags, ctx);
        // the callback log lives in the context, which parse() consumes: keep a raw pointer-free copy by
        // moving the log out through a thread-local
        let cst = match entry { @ENTRIES@ _ => panic!("bad entry") };
        let log = LOG.with(|l| l.borrow_mut().split_off(0));
        let mut o = String::from("{\"r\":\"ok\",\"nodes\":");
        o.push_str(&nodes_json(&cst.data.nodes));
        o.push_str(",\"diags\":[");
        for (i, d) in diags.iter().enumerate() {
            if i > 0 { o.push(','); }
            o.push_str(&format!("[{},{},{}]", d.span.0, d.span.1, json_str(&d.msg)));
        }
        o.push_str("],\"log\":[");
        o.push_str(&log.join(","));
        o.push_str("],\"tcount\":");
        o.push_str(&format!("{},\"nsl\":{}", cst.data.token_count, cst.data.non_skip_len));
        let w = std::panic::catch_unwind(std::panic::AssertUnwindSafe(|| {
            let mut s = String::new();
            let mut budget = 200000usize;
            walk(&cst, NodeRef::ROOT, 0, &mut s, &mut budget);
            s
        }));
        match w {
            Ok(s) => { o.push_str(",\"walk\":["); o.push_str(&s); o.push_str("]"); }
            Err(_) => o.push_str(",\"walk\":\"panic\""),
        }
        o.push('}');
        o
    });
    match res {
        Ok(s) => s,
        Err(_) => { LOG.with(|l| l.borrow_mut().clear()); "{\"r\":\"panic\"}".to_string() }
    }
}

thread_local! { static LOG: RefCell<Vec<String>> = RefCell::new(vec![]); }

// ---- K1: op scripts directly on CstData
fn run_k1(line: &str, out: &mut impl Write) {
    let spans: Vec<Span> = (0..40).map(|i| 2 * i..2 * i + 1).collect();
    let mut c = CstData::new(spans);
    let mut snaps: Vec<MarkTruncation> = vec![];
    let mut buf = String::new();
    let r = std::panic::catch_unwind(std::panic::AssertUnwindSafe(|| {
        for op in line.split_whitespace() {
            buf.push_str(op);
            let args: Vec<usize> = if op.len() > 1 { op[1..].split(',').map(|x| x.parse().unwrap()).collect() } else { vec![] };
            let mut extra = String::new();
            match op.as_bytes()[0] {
                b'o' => { let m = c.open(); extra = format!(" -> {}", m.0); }
                b'c' => { c.close(MarkOpened(args[0]), RULE_OF_ID[args[1]]); }
                b'r' => { c.close_root(MarkOpened(args[0]), RULE_OF_ID[args[1]]); }
                b'a' => { c.advance(TOKEN_TABLE[args[0]], args[1] != 0); }
                b'b' => { c.open_before(MarkClosed(args[0])); }
                b'm' => { extra = format!(" -> {}", c.mark().0); }
                b's' => { snaps.insert(0, c.mark_truncation()); }
                b't' => { let tm = snaps[args[0]].clone(); c.truncate(tm); snaps.drain(0..args[0]); }
                b'l' => { if !snaps.is_empty() { snaps.remove(0); } }
                b'k' => { let l: Vec<String> = c.children(NodeRef(args[0])).map(|x| x.0.to_string()).collect(); extra = format!(" -> [{}]", l.join(",")); }
                b'p' => { let s = c.span(NodeRef(args[0])); extra = format!(" -> {}..{}", s.start, s.end); }
                b'g' => { extra = format!(" -> {}", match c.get(NodeRef(args[0])) {
                    Node::Rule(r, off) => format!("[0,{},{}]", KIND_ID[r as usize], usize::from(off)),
                    Node::Token(t, idx) => format!("[1,{},{}]", t as usize, usize::from(idx)) }); }
                _ => panic!("op"),
            }
            buf.push_str(&extra);
            buf.push_str(&format!(" | {} {} {}\n", nodes_json(&c.nodes), c.token_count, c.non_skip_len));
        }
    }));
    if r.is_err() { buf.push_str("PANIC\n"); }
    buf.push_str("END\n");
    out.write_all(buf.as_bytes()).unwrap();
}

fn main() {
    std::panic::set_hook(Box::new(|_| {}));
    let args: Vec<String> = std::env::args().collect();
    let stdin = std::io::stdin();
    let stdout = std::io::stdout();
    if args.get(1).map(|s| s.as_str()) == Some("k1") {
        let mut out = std::io::BufWriter::new(stdout.lock());
        for line in stdin.lock().lines() { run_k1(&line.unwrap(), &mut out); }
        return;
    }
    let timeout_ms: u64 = args.get(2).and_then(|s| s.parse().ok()).unwrap_or(3000);
    for line in stdin.lock().lines() {
        let line = line.unwrap();
        let (tx, rx) = std::sync::mpsc::channel();
        let l2 = line.clone();
        std::thread::Builder::new().stack_size(256 << 20).spawn(move || {
            let s = run_case(&l2);
            let _ = tx.send(s);
        }).unwrap();
        match rx.recv_timeout(std::time::Duration::from_millis(timeout_ms)) {
            Ok(s) => { println!("{}", s); }
            Err(_) => { println!("{{\"r\":\"hang\"}}"); std::io::stdout().flush().unwrap(); std::process::exit(3); }
        }
        std::io::stdout().flush().unwrap();
    }
}
'''


def pascal(name):
    res = ''
    up = True
    for c in name:
        if up:
            res += c.upper()
            up = False
        elif c == '_':
            up = True
        else:
            res += c
    return res


def make_driver(gen_path, gen_text, tr, tok_ids):
    """tr: rust2cmd.Translator (already run); tok_ids: name -> id (dense from 0)"""
    names = sorted(tok_ids, key=lambda k: tok_ids[k])
    assert [tok_ids[n] for n in names] == list(range(len(names)))
    variants = ', '.join(names)
    table = ', '.join('Token::' + n for n in names)
    # kinds: Rule enum order = tr.kinds
    kind_ids = ', '.join(str(tr.kind_ids[k]) for k in tr.kinds)
    by_id = sorted(tr.kinds, key=lambda k: tr.kind_ids[k])
    rule_of_id = ', '.join('Rule::' + k for k in by_id)
    # callbacks from the trait text
    trait = gen_text[gen_text.index('pub trait ParserCallbacks'):]
    cbs = []
    for m in re.finditer(r'fn create_node_(\w+)\(&mut self, _node_ref: NodeRef, _diags', trait):
        nm = m.group(1)
        if nm not in tr.cb_kind:
            raise Exception('create_node_%s has no Rule arm' % nm)
        cbs.append('    fn create_node_%s(&mut self, node_ref: NodeRef, _diags: &mut Vec<Self::Diagnostic>) { self.v_create(%d, node_ref); LOG.with(|l| l.borrow_mut().append(&mut self.context.log)); }' % (nm, tr.cb_kind[nm]))
    for m in re.finditer(r'fn delete_node_(\w+)\(&mut self, _node_ref: NodeRef\)', trait):
        nm = m.group(1)
        cbs.append('    fn delete_node_%s(&mut self, node_ref: NodeRef) { self.v_delete(%d, node_ref); LOG.with(|l| l.borrow_mut().append(&mut self.context.log)); }' % (nm, tr.cb_kind[nm]))
    for m in re.finditer(r'fn predicate_(\w+)_(\d+)\(&self\) -> bool;', trait):
        cbs.append('    fn predicate_%s_%s(&self) -> bool { self.v_oracle(0, %s) }' % (m.group(1), m.group(2), m.group(2)))
    for m in re.finditer(r'fn action_(\w+)_(\d+)\(&mut self, diags', trait):
        cbs.append('    fn action_%s_%s(&mut self, _diags: &mut Vec<Self::Diagnostic>) { self.v_action(%s); LOG.with(|l| l.borrow_mut().append(&mut self.context.log)); }' % (m.group(1), m.group(2), m.group(2)))
    for m in re.finditer(r'fn assertion_(\w+)_(\d+)\(&self\) -> Option<Self::Diagnostic>;', trait):
        cbs.append('    fn assertion_%s_%s(&self) -> Option<Self::Diagnostic> { if self.v_oracle(1, %s) { let s = self.span(); Some(Diagnostic { span: (s.start, s.end), msg: "<assertion>".to_string() }) } else { None } }' % (m.group(1), m.group(2), m.group(2)))
    entries = '%d => parser.parse(&mut diags),' % tr.rule_ids[tr.start_rule]
    for nm, eoi, kind in tr.parts:
        entries += ' %d => parser.parse_%s(&mut diags),' % (tr.rule_ids[nm], nm)
    s = TEMPLATE
    s = s.replace('@TOKEN_VARIANTS@', variants).replace('@TOKEN_TABLE@', table)
    s = s.replace('@GENERATED@', gen_path).replace('@KIND_IDS@', kind_ids).replace('@RULE_OF_ID@', rule_of_id)
    s = s.replace('@CALLBACKS@', '\n'.join(cbs)).replace('@ENTRIES@', entries)
    return s
