"""K4: texts for the grammar-file front end (lexer, parser, analysis, formatter) and the
runner of `lv-harness front`.

Generators (every random choice comes from the random.Random passed in):
  (a) seq_count / seq_text / seq_range : exhaustive sequences of lexical items
  (b) mutants                           : token-level mutants of the repo's .llw files
  (c) soup                              : random character soup
  (d) relayout                          : a grammar's tokens re-joined with random whitespace
                                          and comments (always a legal layout of the same tokens)
plus the "written grammar" side of C13 (random_written / written_text / dump_text)."""
import glob
import json
import os
import subprocess

import gen_grammar
import lv

# ---------------------------------------------------------------- runner


def run_front(texts, timeout_ms=5000):
    """run `lv-harness front` on the texts; survives hangs and crashes (resumes after the
    offending case).  returns one dict per text: the harness object, or {'hang':True} or
    {'crash':True,'code':…}"""
    res = []
    i = 0
    n = len(texts)
    while i < n:
        inp = ''.join(json.dumps(t) + '\n' for t in texts[i:])
        r = subprocess.run([lv.HARNESS_BIN, 'front', str(timeout_ms)], input=inp.encode('utf-8'),
                           stdout=subprocess.PIPE, stderr=subprocess.PIPE, timeout=3600)
        outs = [l for l in r.stdout.split(b'\n') if l.strip()]
        for l in outs:
            try:
                res.append(json.loads(l))
            except Exception:
                res.append({'garbled': True, 'raw': l[:200].decode('utf-8', 'replace')})
        i += len(outs)
        if i < n and (not outs or not res[-1].get('hang')):
            # the process died without reporting (stack overflow, abort): crash on case i
            res.append({'crash': True, 'code': r.returncode, 'stderr': r.stderr[-300:].decode('utf-8', 'replace')})
            i += 1
    return res[:n]


def is_panic(v):
    return isinstance(v, dict) and v.get('panic') is True


def ok_result(r):
    """the harness ran the case to the end (no hang / crash / garbled output)"""
    return not (r.get('hang') or r.get('crash') or r.get('garbled') or r.get('bad_input')) and 'tokens' in r


# ---------------------------------------------------------------- repo files

def repo_llw_files():
    fs = sorted(glob.glob(os.path.join(lv.REPO, 'tests', 'frontend', '*.llw')))
    fs += sorted(glob.glob(os.path.join(lv.REPO, 'examples', '*', 'src', '*.llw')))
    fs += [os.path.join(lv.REPO, 'src', 'frontend', 'lelwel.llw')]
    return [f for f in fs if os.path.exists(f)]


def repo_llw_texts():
    """[(relative path, text)], duplicates (tests/frontend copies of the examples) kept once"""
    out, seen = [], set()
    for f in repo_llw_files():
        t = open(f, encoding='utf-8').read()
        if t in seen:
            continue
        seen.add(t)
        out.append((os.path.relpath(f, lv.REPO), t))
    return out


# ---------------------------------------------------------------- (a) sequences of lexical items

LEXEMES = [
    'token', 'start', 'right', 'skip', 'part',
    ':', ';', '=', '(', ')', '[', ']', '|', '*', '+', '^', '/', '~', '&',
    'a', 'B', 'foo',
    "'x'", "'\\''", "'\\\\'", "'y",
    '?1', '?t', '#1', '!1', '@', '@foo', '<1', '1>x', '>',
    '// c\n', '/// d\n', '/* b */', '/* u',
    ' ', '\n', '\t',
    '$', 'é', '\U0001F600',
]


def seq_count(n):
    """number of cases of exactly n items (each sequence joined with '' and with ' ')"""
    return 2 * len(LEXEMES) ** n if n > 0 else 1


def seq_text(n, idx):
    """the idx-th case of exactly n items: idx = 2*rank + joiner"""
    if n == 0:
        return ''
    joiner = ' ' if idx % 2 else ''
    rank = idx // 2
    k = len(LEXEMES)
    items = []
    for _ in range(n):
        items.append(LEXEMES[rank % k])
        rank //= k
    items.reverse()
    return joiner.join(items)


def seq_range(n, lo, hi):
    return [seq_text(n, i) for i in range(lo, hi)]


# ---------------------------------------------------------------- tokens of a text (through the harness)

TRIVIA = ('Whitespace', 'LineComment', 'DocComment', 'BlockComment')
COMMENTS = ('LineComment', 'DocComment', 'BlockComment')


def spans_text(text, toks):
    """[(kind, lexeme)] from the harness' [[kind,start,end]] (byte offsets)"""
    b = text.encode('utf-8')
    return [(k, b[s:e].decode('utf-8', 'replace')) for k, s, e in toks]


def tokenize_all(texts):
    """[[(kind, lexeme)]…] via the real lexer; None for a text the harness could not lex"""
    out = []
    for t, r in zip(texts, run_front(texts)):
        if not ok_result(r) or is_panic(r['tokens']):
            out.append(None)
        else:
            out.append(spans_text(t, r['tokens']['toks']))
    return out


# ---------------------------------------------------------------- (b) token-level mutants

def mutant(rng, toks, nops=None):
    """toks: [(kind, lexeme)] of a file, trivia included.  returns (text, [op names])"""
    ts = [x[1] for x in toks]
    sig = [i for i, x in enumerate(toks) if x[0] != 'Whitespace']
    ops = []
    for _ in range(nops or rng.choice([1, 1, 1, 2, 3])):
        if not ts:
            break

        def pick():
            live = [i for i in sig if i < len(ts)]
            if live and rng.random() < 0.85:
                return rng.choice(live)
            return rng.randrange(len(ts))
        op = rng.choice(['delete', 'duplicate', 'insert', 'swap', 'truncate', 'delete', 'insert'])
        i = pick()
        ops.append(op)
        if op == 'delete':
            del ts[i]
        elif op == 'duplicate':
            ts.insert(i, ts[i])
        elif op == 'insert':
            lx = rng.choice(LEXEMES)
            ts.insert(i, lx if rng.random() < 0.5 else lx + ' ')
        elif op == 'swap':
            j = pick()
            ts[i], ts[j] = ts[j], ts[i]
        else:
            ts = ts[:i]
    return ''.join(ts), ops


def truncations(toks, step=1):
    """the file cut at every step-th token boundary (a half-typed grammar)"""
    ts = [x[1] for x in toks]
    out = []
    for i in range(0, len(ts), step):
        if toks[i][0] == 'Whitespace' and i > 0:
            continue
        out.append(''.join(ts[:i]))
    return out


def deletions(toks, step=1):
    """the file with one non-whitespace token removed"""
    ts = [x[1] for x in toks]
    idx = [i for i, x in enumerate(toks) if x[0] != 'Whitespace']
    return [''.join(ts[:i] + ts[i + 1:]) for i in idx[::step]]


# ---------------------------------------------------------------- (c) soup

SOUP_ASCII = [chr(c) for c in range(32, 127)]
SOUP_MULTI = ['é', 'ß', 'λ', '€', '中', '\U0001F600', '́', ' ', ' ', '﻿']
SOUP_FRAG = ["'", "'", "\\", "\\'", "/*", "*/", "//", "///", "\n", "\n", " ", " ", " ", "\t", "\r\n", "\x0b", "\x0c", "\x00", "\x7f",
             ':', ';', '(', ')', '[', ']', '|', '/', '>', '<', '?', '#', '!', '@', '^', '~', '&', '=', '*', '+']


def soup(rng, maxlen=60):
    n = rng.randint(0, maxlen)
    mode = rng.random()
    out = []
    for _ in range(n):
        x = rng.random()
        if mode < 0.3:
            # mostly lexemes glued with junk
            if x < 0.6:
                out.append(rng.choice(LEXEMES))
            elif x < 0.8:
                out.append(rng.choice(SOUP_FRAG))
            elif x < 0.9:
                out.append(rng.choice(SOUP_MULTI))
            else:
                out.append(rng.choice(SOUP_ASCII))
        elif mode < 0.6:
            # characters
            if x < 0.55:
                out.append(rng.choice(SOUP_ASCII))
            elif x < 0.75:
                out.append(rng.choice(SOUP_MULTI))
            else:
                out.append(rng.choice(SOUP_FRAG))
        else:
            # identifier / digit heavy with openers of strings and comments
            if x < 0.4:
                out.append(rng.choice('abcXYZ019_'))
            elif x < 0.7:
                out.append(rng.choice(SOUP_FRAG))
            elif x < 0.85:
                out.append(rng.choice(SOUP_MULTI))
            else:
                out.append(rng.choice(LEXEMES))
    return ''.join(out)


# ---------------------------------------------------------------- (d) layouts

WS_PIECES = [' ', ' ', ' ', '  ', '\n', '\n', '\n  ', '\n\t', '\t', '\n\n', ' \n', '\r\n', '    ', '\n    ', '\x0c']
COMMENT_PIECES = ['// c\n', '/// d\n', '/* b */', '// é x\n', '/**/', '//\n', '/* * / */',
                  '/* one\n   two */', '/*\n * x\n */', '/* a\n\tb\n      c */']


def _wordish(c):
    return c.isascii() and (c.isalnum() or c == '_')


def needs_sep(left, right):
    """would the two lexemes lex differently when glued together?"""
    if not left or not right:
        return False
    a, b = left[-1], right[0]
    if _wordish(a) and _wordish(b):
        return True
    if a in '@>' and (b.isascii() and b.isalpha()):
        return True
    if a == '/' and b in '/*':
        return True
    if a in '?#!<' and (b.isascii() and b.isalnum()):
        return True
    # `A` `>x` may be glued: the identifier is matched first and a creation cannot start with a letter
    return False


def gap(rng, style, left, right, ctx):
    """separator between two significant tokens.  ctx: 'after_colon', 'in_brackets', 'between_decls', 'other'"""
    p_comment = style['comment'] * (2.0 if ctx in ('after_colon', 'between_decls', 'in_brackets') else 1.0)
    pieces = []
    if rng.random() < p_comment:
        kind = rng.random()
        if ctx == 'after_colon' and kind < 0.5:
            # a comment on its own line directly after a rule's colon
            pieces = [rng.choice(['\n', '\n\t', '\n  ', ' \n ']), rng.choice(COMMENT_PIECES[:2] + COMMENT_PIECES[3:4]), rng.choice(['', '  ', '\t'])]
        elif kind < 0.45:
            # after the token on the same line
            pieces = [rng.choice(['', ' ', '  ']), rng.choice(COMMENT_PIECES), rng.choice(['', ' ', '\n', '  '])]
        elif kind < 0.8:
            # on its own line
            pieces = [rng.choice(['\n', '\n  ', '\n\n']), rng.choice(COMMENT_PIECES), rng.choice(['', '\n', ' ', '\n  '])]
        else:
            # several
            pieces = [rng.choice(['', ' ', '\n'])]
            for _ in range(rng.randint(2, 3)):
                pieces += [rng.choice(COMMENT_PIECES), rng.choice(['', ' ', '\n', '\n\n'])]
    else:
        x = rng.random()
        if x < style['none']:
            pieces = []
        elif x < style['none'] + style['single']:
            pieces = [' ']
        else:
            pieces = [rng.choice(WS_PIECES) for _ in range(rng.randint(1, 2))]
    s = ''.join(pieces)
    # keep the layout legal: never glue lexemes that would lex differently together
    if needs_sep(left, s if s else right):
        s = ' ' + s
    if s and needs_sep(s, right):
        s = s + ' '
    return s


DECL_KW = ('Token', 'Start', 'Right', 'Skip', 'Part')


EOF_COMMENTS = ['// done', '/// d', '//', '// c x', '///', '//x', '// a b c', '/// / x']


def eof_comment_layout(rng, text):
    """the text with a line or doc comment behind its last token and NO newline behind the comment (finding D28)"""
    return text.rstrip(' \t\r\n\x0c') + rng.choice(['', ' ', '  ', '\n', '\n\n', '\t']) + rng.choice(EOF_COMMENTS)


def relayout(rng, toks, keep_comments=True):
    """toks: [(kind, lexeme)] from the real lexer (trivia included or not).  returns a text with the
    same significant tokens, in the same order, separated by random whitespace and comments.
    Comments of the source are kept as tokens (so that doc comments of a repo file survive) unless
    keep_comments is False."""
    sig = [(k, x) for k, x in toks if k != 'Whitespace' and (keep_comments or k not in COMMENTS)]
    style = {'none': rng.choice([0.0, 0.2, 0.5, 0.9]), 'single': rng.choice([0.2, 0.5, 0.8]),
             'comment': rng.choice([0.0, 0.03, 0.1, 0.25])}
    out = []
    depth = 0
    prev = None
    if rng.random() < 0.3:
        out.append(rng.choice(['\n', '  ', '// c\n', '/* b */ ', '\n\n/// d\n', '\t', '/* b */']))
    for i, (k, x) in enumerate(sig):
        if prev is not None:
            pk, px = prev
            if pk == 'Colon':
                ctx = 'after_colon'
            elif pk == 'Semi' or k in DECL_KW:
                ctx = 'between_decls'
            elif depth > 0 or pk in ('LPar', 'LBrak'):
                ctx = 'in_brackets'
            else:
                ctx = 'other'
            if pk in ('LineComment', 'DocComment'):
                # the comment lexeme ends with its newline: anything may follow
                s = rng.choice(['', '', '  ', '\t', '\n']) if rng.random() < 0.5 else ''
            else:
                s = gap(rng, style, px, x, ctx)
                if pk == 'Semi' and rng.random() < 0.7 and '\n' not in s:
                    s = s + '\n' if not s.strip() else s
            out.append(s)
        out.append(x)
        if k in ('LPar', 'LBrak'):
            depth += 1
        elif k in ('RPar', 'RBrak'):
            depth = max(0, depth - 1)
        prev = (k, x)
    # end of file: with or without newline, maybe a trailing comment
    if sig and sig[-1][0] not in ('LineComment', 'DocComment'):
        tail = rng.choice(['', '\n', '\n', '\n\n', ' ', '\n// c\n', ' /* b */', ' // c\n'])
        if sig[-1][1].endswith('/') and tail[:1] in ('/',):
            tail = ' ' + tail
        out.append(tail)
    return ''.join(out)


# ---------------------------------------------------------------- C13: the grammar that was written

SYMBOLS = ["'+'", "'-'", "'=='", "'\\''", "'\\\\'", "'\\\\\\''", "'a b'", "'('", "'/*'", "'//'", "';'", "'é'", "'\"'", "'|'", "' '"]


class Written:
    """declarations + rule bodies as written: the reference for the front end's typed view.
    token_decls: [[(name, symbol|None)…]…]   (one list per `token` declaration)
    skip/right : [[name or symbol…]…]        (one list per declaration)
    starts     : [name…], parts: [[name…]…]
    rules      : [(name, elided, regex|None)], regex as in gen_grammar plus ('sym', "'+'")
    order      : the declarations in file order: ('token',i) ('skip',i) ('right',i) ('start',i) ('part',i) ('rule',i)"""

    def __init__(self):
        self.token_decls, self.skip, self.right, self.starts, self.parts, self.rules, self.order = [], [], [], [], [], [], []


def pp(r, prec):
    """printer of rule bodies; prec: 0 alternation, 1 ordered choice, 2 concatenation, 3 postfix.
    A child is parenthesised exactly when it binds looser than its position requires."""
    k = r[0]
    if k in ('tok', 'rule', 'sym'):
        return r[1]
    if k == 'alt':
        s = ' | '.join(pp(x, 1) for x in r[1])
        return '(%s)' % s if prec > 0 else s
    if k == 'choice':
        s = ' / '.join(pp(x, 2) for x in r[1])
        return '(%s)' % s if prec > 1 else s
    if k == 'cat':
        s = ' '.join(pp(x, 3) for x in r[1])
        return '(%s)' % s if prec > 2 else s
    if k == 'star':
        return pp(r[1], 3) + '*'
    if k == 'plus':
        return pp(r[1], 3) + '+'
    if k == 'opt':
        return '[%s]' % pp(r[1], 0)
    if k == 'paren':
        return '(%s)' % (pp(r[1], 0) if r[1] is not None else '')
    if k == 'pred':
        return '?%s' % r[1]
    if k == 'action':
        return '#%s' % r[1]
    if k == 'assert':
        return '!%s' % r[1]
    if k == 'rename':
        return '@%s' % r[1]
    if k == 'elide':
        return '^'
    if k == 'marker':
        return '<%s' % r[1]
    if k == 'create':
        return '%s>%s' % ('' if r[1] is None else r[1], '' if r[2] is None else r[2])
    if k == 'commit':
        return '~'
    if k == 'return':
        return '&'
    raise ValueError(k)


def written_text(w):
    """one declaration per line, single spaces: the canonical text of a Written"""
    out = []
    for kind, i in w.order:
        if kind == 'token':
            out.append('token ' + ' '.join(n if s is None else '%s=%s' % (n, s) for n, s in w.token_decls[i]) + ';')
        elif kind == 'skip':
            out.append('skip ' + ' '.join(w.skip[i]) + ';')
        elif kind == 'right':
            out.append('right ' + ' '.join(w.right[i]) + ';')
        elif kind == 'start':
            out.append('start %s;' % w.starts[i])
        elif kind == 'part':
            out.append('part ' + ' '.join(w.parts[i]) + ';')
        else:
            name, elided, rx = w.rules[i]
            out.append('%s%s:%s;' % (name, '^' if elided else '', ' ' + pp(rx, 0) if rx is not None else ''))
    return '\n'.join(out) + '\n'


def _map_regex(r, f):
    k = r[0]
    if k in ('alt', 'choice', 'cat'):
        return (k, [_map_regex(x, f) for x in r[1]])
    if k in ('star', 'plus', 'opt', 'paren'):
        return (k, _map_regex(r[1], f) if r[1] is not None else None)
    return f(r)


def random_written(rng, opts=None):
    """a random grammar (gen_grammar) dressed up: some tokens get symbols (with escaped quotes and
    backslashes), some references use the symbol, token declarations are split, declarations and
    rules are shuffled (keeping it a legal file), occasionally deeper operator nesting"""
    g = gen_grammar.Gen(rng, opts).grammar()
    w = Written()
    names = list(g.tokens)
    syms = {}
    pool = list(SYMBOLS)
    rng.shuffle(pool)
    for n in names:
        if pool and rng.random() < 0.35:
            syms[n] = pool.pop()
    decls = [(n, syms.get(n)) for n in names]
    # split the token list into 1-3 declarations
    cuts = sorted(rng.sample(range(1, len(decls)), min(len(decls) - 1, rng.choice([0, 0, 1, 2])))) if len(decls) > 1 else []
    prev = 0
    for c in cuts + [len(decls)]:
        w.token_decls.append(decls[prev:c])
        prev = c

    def ref(n):
        return syms[n] if n in syms and rng.random() < 0.5 else n
    if g.skip:
        w.skip.append([ref(n) for n in g.skip])
    if g.right:
        rs = list(g.right)
        if len(rs) > 1 and rng.random() < 0.4:
            c = rng.randint(1, len(rs) - 1)
            w.right += [[ref(n) for n in rs[:c]], [ref(n) for n in rs[c:]]]
        else:
            w.right.append([ref(n) for n in rs])
    w.starts.append(g.start)
    if g.parts:
        w.parts.append(list(g.parts))

    def leaf(r):
        if r[0] == 'tok' and r[1] in syms and rng.random() < 0.5:
            return ('sym', syms[r[1]])
        return r
    for name, elided, rx in g.rules:
        if rx is not None:
            rx = _map_regex(rx, leaf)
            if rng.random() < 0.25:
                rx = extra_nesting(rng, rx, names)
        w.rules.append((name, elided, rx))
    head = [('token', i) for i in range(len(w.token_decls))] + [('skip', i) for i in range(len(w.skip))] + \
        [('right', i) for i in range(len(w.right))] + [('start', 0)] + [('part', i) for i in range(len(w.parts))]
    rules = [('rule', i) for i in range(len(w.rules))]
    x = rng.random()
    if x < 0.4:
        w.order = head + rules
    elif x < 0.7:
        rng.shuffle(head)
        w.order = head + rules
    else:
        w.order = head + rules
        rng.shuffle(w.order)
    w.features = set(g.features)
    return w


def extra_nesting(rng, rx, toks):
    """wrap the body in operators the generator rarely nests: the precedence statement of C13"""
    def t():
        return ('tok', rng.choice(toks))
    x = rng.random()
    if x < 0.2:
        return ('alt', [rx if rx[0] != 'alt' else ('paren', rx), ('choice', [('cat', [t(), ('star', t())]), ('cat', [t(), ('plus', t())])]), t()])
    if x < 0.4:
        return ('choice', [('cat', [t(), ('opt', ('alt', [t(), t()]))]), rx if rx[0] not in ('alt', 'choice') else ('paren', rx)])
    if x < 0.55:
        return ('cat', [rx if rx[0] not in ('alt', 'choice', 'cat') else ('paren', rx), ('star', ('star', t())), ('plus', ('paren', ('star', t())))])
    if x < 0.7:
        return ('cat', [('paren', None), rx if rx[0] not in ('alt', 'choice', 'cat') else ('paren', rx)])
    if x < 0.85:
        return ('alt', [('cat', [t(), ('alt', [t(), ('choice', [t(), t()])])]), rx if rx[0] != 'alt' else ('paren', rx)])
    return ('star', ('paren', ('alt', [('choice', [('cat', [t(), t()]), t()]), ('opt', rx)])))


def dump_regex(r):
    """the dump's regex JSON (dump.rs) -> the tuples printed by pp.  None when the typed view lacks a part"""
    if r is None:
        return None
    k = r['k']
    if k in ('choice', 'alt', 'concat'):
        ops = [dump_regex(o) for o in r['ops']]
        return ({'choice': 'choice', 'alt': 'alt', 'concat': 'cat'}[k], ops)
    if k == 'paren':
        return ('paren', dump_regex(r['op']))
    if k in ('opt', 'star', 'plus'):
        if r['op'] is None:
            return ('missing_operand',)
        return (k, dump_regex(r['op']))
    if k == 'name':
        return ('rule', r['value']) if r.get('value') is not None else ('missing_value',)
    if k == 'symbol':
        return ('sym', r['value']) if r.get('value') is not None else ('missing_value',)
    v = r.get('value')
    if k == 'pred':
        if v is None or not v.startswith('?') or (v[1:] == 't') != bool(r.get('is_true')):
            return ('bad_pred', v, r.get('is_true'))
        return ('pred', v[1:])
    if k == 'action':
        return ('action', v[1:]) if v and v[0] == '#' else ('bad', v)
    if k == 'assert':
        return ('assert', v[1:]) if v and v[0] == '!' else ('bad', v)
    if k == 'rename':
        return ('rename', v[1:]) if v and v[0] == '@' else ('bad', v)
    if k == 'elision':
        return ('elide',)
    if k == 'marker':
        return ('marker', v[1:]) if v and v[0] == '<' else ('bad', v)
    if k == 'creation':
        # number / node_name / whole_rule are the typed accessors: they must agree with the lexeme
        num, nm = r.get('number'), r.get('node_name')
        if v is None or v != '%s>%s' % (num or '', nm or '') or bool(r.get('whole_rule')) != (num is None):
            return ('bad_creation', v, num, nm, r.get('whole_rule'))
        return ('create', num, nm)
    if k == 'commit':
        return ('commit',)
    if k == 'return':
        return ('return',)
    return ('unknown', k)


def dump_written(dump):
    """the front end's typed view (lv.harness_gen(...)['dump']) as a Written, declarations in span order"""
    w = Written()
    # token declarations: dump lists them flat with spans; group by the `token` declaration they
    # belong to is not visible in the typed view, so compare them flat (one group)
    w.token_decls = [[(t['name'], t['symbol']) for t in dump['tokens']]]
    w.skip = [list(x) for x in dump['skip_decls']]
    w.right = [list(x) for x in dump['right_decls']]
    w.starts = list(dump['start_decls'])
    w.parts = [list(x) for x in dump['part_decls']]
    for r in dump['rules']:
        w.rules.append((r['name'], bool(r['elided']), dump_regex(r['regex'])))
    for kind, xs in (('token', w.token_decls), ('skip', w.skip), ('right', w.right), ('start', w.starts), ('part', w.parts), ('rule', w.rules)):
        w.order += [(kind, i) for i in range(len(xs))]
    return w


def canonical(w):
    """what the typed view can show of a Written, in file order per kind of declaration (the typed
    view exposes neither how declarations of different kinds interleave nor how token
    declarations are grouped)"""
    def safe_pp(rx):
        try:
            return pp(rx, 0)
        except Exception as e:  # a tuple that only the dump side can produce (missing part)
            return '<unprintable %r: %s>' % (rx, e)
    c = {'tokens': [], 'skip': [], 'right': [], 'start': [], 'part': [], 'rules': []}
    for kind, i in w.order:
        if kind == 'token':
            c['tokens'] += [[n, s] for n, s in w.token_decls[i]]
        elif kind == 'skip':
            c['skip'].append(list(w.skip[i]))
        elif kind == 'right':
            c['right'].append(list(w.right[i]))
        elif kind == 'start':
            c['start'].append(w.starts[i])
        elif kind == 'part':
            c['part'].append(list(w.parts[i]))
        else:
            n, e, rx = w.rules[i]
            c['rules'].append([n, bool(e), None if rx is None else safe_pp(rx)])
    return c


def strip_regex(r):
    """dump regex -> bare structure (kinds and values only), for the hand-written precedence cases"""
    if r is None:
        return None
    k = r['k']
    if k in ('choice', 'alt', 'concat'):
        return [k] + [strip_regex(o) for o in r['ops']]
    if k in ('paren', 'opt', 'star', 'plus'):
        return [k, strip_regex(r['op'])]
    if k in ('elision', 'commit', 'return'):
        return [k]
    return [k, r.get('value')]


# hand-written precedence cases: text of one rule body and the structure the property demands
PRECEDENCE_CASES = [
    ("A B* | C D / E F+ | G",
     ['alt', ['concat', ['name', 'A'], ['star', ['name', 'B']]],
      ['choice', ['concat', ['name', 'C'], ['name', 'D']], ['concat', ['name', 'E'], ['plus', ['name', 'F']]]],
      ['name', 'G']]),
    ("A / B | C / D",
     ['alt', ['choice', ['name', 'A'], ['name', 'B']], ['choice', ['name', 'C'], ['name', 'D']]]),
    ("A | B C* D+ / E",
     ['alt', ['name', 'A'], ['choice', ['concat', ['name', 'B'], ['star', ['name', 'C']], ['plus', ['name', 'D']]], ['name', 'E']]]),
    ("(A | B)* C",
     ['concat', ['star', ['paren', ['alt', ['name', 'A'], ['name', 'B']]]], ['name', 'C']]),
    ("A B+* [C | D / E F] G",
     ['concat', ['name', 'A'], ['star', ['plus', ['name', 'B']]],
      ['opt', ['alt', ['name', 'C'], ['choice', ['name', 'D'], ['concat', ['name', 'E'], ['name', 'F']]]]], ['name', 'G']]),
    ("?1 A #2 !3 @foo ^ <4 B 4>bar > ~ & | 'x'* C",
     ['alt', ['concat', ['pred', '?1'], ['name', 'A'], ['action', '#2'], ['assert', '!3'], ['rename', '@foo'], ['elision'],
              ['marker', '<4'], ['name', 'B'], ['creation', '4>bar'], ['creation', '>'], ['commit'], ['return']],
      ['concat', ['star', ['symbol', "'x'"]], ['name', 'C']]]),
    ("A (B / C | D) E / F",
     ['choice', ['concat', ['name', 'A'], ['paren', ['alt', ['choice', ['name', 'B'], ['name', 'C']], ['name', 'D']]], ['name', 'E']], ['name', 'F']]),
    ("()", ['paren', None]),
    ("A", ['name', 'A']),
]


def precedence_file(body):
    return "token A B C D E F G X='x';\nstart s;\ns: %s;\n" % body
