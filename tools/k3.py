#!/usr/bin/env python3
"""K3: generated parsers.  For sampled grammars: lelwel (current /repo) emits
generated.rs; rust2cmd translates it into an Exec.v program; rustc compiles the
real parser; both run the same token sequences; everything observable is
compared, and per-property direct oracles are evaluated on the implementation's
output."""
import collections
import json
import os
import shutil
import tempfile
from concurrent.futures import ThreadPoolExecutor

import gen_grammar
import lv
import rust2cmd


class Case:
    pass


def prepare(work, grammars, texts=None):
    """grammars: list of gen_grammar.G (or None with texts[i]); returns list of dict per grammar"""
    jobs = []
    for i, g in enumerate(grammars):
        d = os.path.join(work, 'g%d' % i)
        os.makedirs(d, exist_ok=True)
        open(os.path.join(d, 'g.llw'), 'w').write(g.text() if g is not None else texts[i])
        # keep RustOutput from writing skeleton files next to the grammar
        open(os.path.join(d, 'parser.rs'), 'w').write('')
        jobs.append((os.path.join(d, 'g.llw'), os.path.join(d, 'out')))
    res = lv.harness_gen(jobs)
    out = []
    for i, (g, r) in enumerate(zip(grammars, res)):
        out.append({'g': g, 'dir': os.path.join(work, 'g%d' % i), 'res': r, 'text': g.text() if g is not None else texts[i]})
    return out


def build_all(items):
    """translate + compile every accepted grammar (parallel). sets item['pb'] or item['error']"""
    def one(it):
        r = it['res']
        if not r.get('wrote'):
            return
        try:
            it['pb'] = lv.build_parser(os.path.join(it['dir'], 'out'), r)
        except rust2cmd.TranslateError as e:
            it['terror'] = str(e)
            # the tie is broken for this grammar; keep an implementation-only build so that the direct oracles can
            # still look for a failing input
            try:
                it['pb_impl'] = lv.build_parser(os.path.join(it['dir'], 'out'), r, partial=True)
            except Exception:  # noqa
                pass
        except Exception as e:  # noqa
            it['error'] = repr(e)
    with ThreadPoolExecutor(max_workers=16) as ex:
        list(ex.map(one, items))


def run_impl_only(it, cases):
    """cases on the compiled parser alone (no model side): list of (case, impl)"""
    pb = it['pb_impl']
    T = pb.tok_ids
    lines = [lv.case_line(pb, e, [T[x] for x in toks], bits) for e, toks, bits in cases]
    return list(zip(cases, lv.run_impl(pb, lines)))


def run_cases(it, cases):
    """cases: list of (entry_rule, [token names], bits). returns list of (case, impl, model, cmp)"""
    pb = it['pb']
    T = pb.tok_ids
    lines = [lv.case_line(pb, e, [T[x] for x in toks], bits) for e, toks, bits in cases]
    ri = lv.run_impl(pb, lines)
    rm = lv.run_model(pb, lines)
    return [(c, a, b, lv.compare_case(pb, a, b)) for c, a, b in zip(cases, ri, rm)]


def run_all(items, cases_of):
    """cases_of(it) -> cases; runs all accepted+compiled grammars in parallel"""
    todo = [it for it in items if 'pb' in it and it['pb'].rustc_ok]

    def one(it):
        it['cases'] = run_cases(it, cases_of(it))
    with ThreadPoolExecutor(max_workers=16) as ex:
        list(ex.map(one, todo))
    return todo


# ------------------------------------------------------------ direct oracles on the implementation's output

def skipped_ids(pb):
    return set(pb.tr.skipped)


def oracle_c01(pb, toks, impl):
    """depth-first walk through the public API visits every input token once, in order, with its span"""
    if impl['r'] != 'ok':
        return None  # totality is C03's business
    T = pb.tok_ids
    want = [(T[x], i, i, i + 1) for i, x in enumerate(toks)]
    w = impl.get('walk')
    if w == 'panic':
        return 'walking the returned tree through Cst::children/span panics'
    got = [(x[2], x[3], x[4], x[5]) for x in w if x[1] == 1]
    if got != want:
        return 'leaves of the walk differ from the input: got %d leaves for %d tokens (first diff at %s)' % (
            len(got), len(want), next((i for i, (a, b) in enumerate(zip(got, want)) if a != b), min(len(got), len(want))))
    return None


def oracle_c02(pb, toks, impl):
    if impl['r'] != 'ok':
        return None
    raw = lv.tree_from_nodes(impl['nodes'])
    if raw is None:
        return 'node vector is not the pre-order layout of a tree (a rule extent leaves its parent)'
    w = impl.get('walk')
    if w == 'panic':
        return 'walking the returned tree panics'
    wt = lv.tree_from_walk(w)
    if wt is None:
        return 'walk is not a tree'
    sk = skipped_ids(pb)

    def strip(t):
        return ('t', t[1], t[2]) if t[0] == 't' else ('n', t[1], [strip(c) for c in t[5]])
    if strip(wt) != raw:
        return 'tree seen through Cst::children differs from the node vector'
    # spans: children nest inside parent and are ordered; trivia edges
    def chk(t, root):
        if t[0] == 't':
            return None
        s, e = t[3], t[4]
        last = None
        kids = t[5]
        for c in kids:
            cs, ce = c[3], c[4]
            has_tok = c[0] == 't' or subtree_has_tok(c)
            if has_tok:
                if cs < s or ce > e:
                    return 'child span %d..%d outside parent span %d..%d' % (cs, ce, s, e)
                if last is not None and cs < last:
                    return 'sibling spans out of order'
                last = ce
            r = chk(c, False)
            if r:
                return r
        if not root and kids:
            if kids[0][0] == 't' and kids[0][1] in sk:
                return 'rule node starts with a skipped token'
            if kids[-1][0] == 't' and kids[-1][1] in sk:
                return 'rule node ends with a skipped token'
        return None

    def subtree_has_tok(t):
        if t[0] == 't':
            return True
        return any(subtree_has_tok(c) for c in t[5])
    r = chk(wt, True)
    if r:
        return r
    for ev in impl['log']:
        if ev[0] == 'c':
            _, k, idx, ak, aoff, ok = ev
            if ak != k:
                return 'create_node callback announced kind %d at %d but the node has kind %d' % (k, idx, ak)
            if not ok:
                return 'create_node callback fired on an incomplete subtree at %d' % idx
    return None
