#!/usr/bin/env python3
"""Exhaustive small space for the thorough tier of the analysis checks (C09, C10, C14):
every grammar over tokens A, B with a start rule s and at most one further rule r, where the body
of s is built from at most two operands (atoms A, B, r, each optionally under one of * + [])
joined by concatenation or alternation, and the body of r from a smaller space that includes the
self reference (direct left recursion, nullable prefixes).  Every tenth grammar with a rule r is
emitted a second time with `part r;`."""
import itertools


def unary(atoms):
    out = list(atoms)
    for a in atoms:
        out += [a + '*', a + '+', '[' + a + ']']
    return out


def bodies(atoms, wide):
    u = unary(atoms)
    out = list(u)
    pool = u if wide else atoms
    for x, y in itertools.product(pool, pool):
        out.append('%s %s' % (x, y))
        out.append('%s | %s' % (x, y))
    return out


def enumerate_grammars():
    s_bodies = bodies(['A', 'B', 'r'], True)
    r_bodies = bodies(['A', 'B', 'r'], False)
    n = 0
    for sb in s_bodies:
        if 'r' not in sb:
            yield 'token A B;\nstart s;\ns: %s;\n' % sb
            continue
        for rb in r_bodies:
            n += 1
            yield 'token A B;\nstart s;\ns: %s;\nr: %s;\n' % (sb, rb)
            if n % 10 == 0:
                yield 'token A B;\nstart s;\npart r;\ns: %s;\nr: %s;\n' % (sb, rb)


if __name__ == '__main__':
    gs = list(enumerate_grammars())
    print(len(gs))
    print(gs[0], gs[len(gs) // 2], gs[-1])
