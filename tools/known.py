"""Known findings: genuine defects of /repo that are recorded rather than repaired.
known_findings.json lists them with a witness and a *class*; a failing case is
attributed to a finding only if the class predicate (static, on the grammar as
the real front end sees it, plus the model's dynamic cause) holds.  Entries
under "fixed" suppress nothing."""
import json
import os

import lv


def walk(r, f, ctx=None):
    """pre-order over a dumped regex"""
    if r is None:
        return
    f(r)
    for c in r.get('ops', []) or []:
        walk(c, f)
    if r.get('op') is not None:
        walk(r['op'], f)


def linear_events(r, out):
    """marker / creation events of a rule body in textual order"""
    def f(x):
        if x['k'] == 'marker':
            out.append(('m', x['value'][1:] if x.get('value') else None))
        elif x['k'] == 'creation':
            out.append(('c', x.get('number')))
    walk(r, f)


def crossing_or_stale_markers(dump):
    """some rule creates a node from an older mark while a younger marker is still to be used
    (`<1 .. <2 .. 1>x .. 2>y`, or `<1 .. > .. 1>x` with a whole-rule creation)"""
    for rule in dump['rules']:
        ev = []
        if rule.get('regex') is None:
            continue
        linear_events(rule['regex'], ev)
        order = {}
        for i, (k, n) in enumerate(ev):
            if k == 'm' and n not in order:
                order[n] = i
        for i, (k, n) in enumerate(ev):
            if k != 'c':
                continue
            older = -1 if n is None else order.get(n, None)
            if older is None:
                continue
            # a marker defined after `older` and before this creation, used by a later creation
            for j in range(i):
                if ev[j][0] == 'm' and order.get(ev[j][1]) == j and j > older:
                    nm = ev[j][1]
                    if any(e2 == ('c', nm) for e2 in ev[i + 1:]):
                        return True
    return False


def creation_in_choice_prefix(dump):
    """a non-final alternative of an ordered choice contains a creation whose mark was taken
    before the alternative started (whole-rule creation, or marker outside the alternative)"""
    found = [False]

    def visit(r):
        if r['k'] == 'choice':
            for alt in r['ops'][:-1]:
                ev = []
                linear_events(alt, ev)
                defined = set()
                for k, n in ev:
                    if k == 'm':
                        defined.add(n)
                    elif k == 'c' and (n is None or n not in defined):
                        found[0] = True
    for rule in dump['rules']:
        if rule.get('regex') is not None:
            walk(rule['regex'], visit)
    return found[0]


def return_before_consuming(dump):
    """a rule whose body can reach `&` before consuming any token"""
    def first_is_return(r):
        k = r['k']
        if k == 'return':
            return True
        if k == 'concat':
            for o in r['ops']:
                if o['k'] in ('pred', 'action', 'assert', 'rename', 'elision', 'marker', 'creation', 'commit'):
                    continue
                return first_is_return(o)
            return False
        if k in ('alt', 'choice'):
            return any(first_is_return(o) for o in r['ops'])
        if k in ('paren', 'opt', 'star', 'plus'):
            return r.get('op') is not None and first_is_return(r['op'])
        return False
    return any(rule.get('regex') is not None and first_is_return(rule['regex']) for rule in dump['rules'])


CLASSES = {
    'crossing_or_stale_markers': lambda dump, case, impl, model: crossing_or_stale_markers(dump) and model.get('gv') is False,
    'creation_in_choice_prefix': lambda dump, case, impl, model: creation_in_choice_prefix(dump) and model.get('gv') is False,
    'return_before_consuming': lambda dump, case, impl, model: return_before_consuming(dump) and impl.get('r') == 'hang' and model.get('r') == 'fuel',
}


class Known:
    def __init__(self, pid):
        self.pid = pid
        p = os.path.join(lv.VERIF, 'known_findings.json')
        self.entries = []
        if os.path.exists(p):
            j = json.load(open(p))
            self.entries = [e for e in j.get('findings', []) if pid in e['properties']]
        self.hits = {e['id']: 0 for e in self.entries}
        self.still = {}

    def match(self, it, case, impl, model):
        dump = it['res'].get('dump')
        if dump is None:
            return None
        for e in self.entries:
            pred = CLASSES.get(e['class'])
            try:
                if pred and pred(dump, case, impl, model):
                    return e['id']
            except Exception:
                continue
        return None

    def hit(self, kid, rec):
        self.hits[kid] += 1

    def rerun_witnesses(self, work, oracle, ck):
        """each recorded witness is replayed on the implementation; it yields a KNOWN-FINDING line iff it still fails"""
        import k3
        ents = [e for e in self.entries if e.get('witness')]
        if not ents:
            return
        sub = os.path.join(work, 'known')
        os.makedirs(sub, exist_ok=True)
        items = k3.prepare(sub, [None] * len(ents), [e['witness']['grammar'] for e in ents])
        k3.build_all([it for it in items if it['res'].get('wrote')])
        for e, it in zip(ents, items):
            if 'pb' not in it or not it['pb'].rustc_ok:
                continue
            w = e['witness']
            res = k3.run_cases(it, [(w['entry'], w['tokens'], w.get('bits', ''))])
            case, impl, model, cmp_ = res[0]
            o = oracle(it, case, impl, model)
            if o is not None:
                self.still[e['id']] = '%s: grammar %r on input %r: %s' % (e['id'], w['grammar'].replace('\n', ' '), ' '.join(w['tokens']), o)

    def lines(self):
        return [self.still[k] for k in sorted(self.still)]

    def hits_summary(self):
        return dict(self.hits)
