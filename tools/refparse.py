#!/usr/bin/env python3
"""Reference interpreter with value semantics for a grammar (the typed view dumped
by the harness): the prioritised reading the documentation gives to ordered choice
and predicates, LL(1) decisions taken with the *textbook* sets of tools/textbook.py
(never lelwel's), no error recovery: the first mismatch makes the input a
non-sentence.  For sentences it builds the expected tree with the node operators
applied (rename, elision, markers/creations) and the action log."""
import textbook


class Fail(Exception):
    """mismatch: outside an undoable region the input is not a sentence"""
    def __init__(self, hard=False):
        self.hard = hard


class Ref:
    def __init__(self, dump, g=None, oracle=None):
        self.dump = dump
        self.g = g or textbook.Grammar(dump).analyse()
        self.oracle = oracle or (lambda kind, num, k, la: False)
        self.skipped = set()
        skip_ids = set(dump['sema']['skipped'])
        for t in dump['tokens']:
            if t['id'] in skip_ids:
                self.skipped.add(t['name'])
        self.skipped.add('Error')
        self.rec_cache = {}

    # ---- helpers
    def cur(self):
        return self.toks[self.pos] if self.pos < len(self.toks) else self.eoi

    def lookahead(self):
        """what peek(0), peek(1), peek(2) and peek_left(1) return at this point (token names)"""
        n = len(self.toks)
        pk = [self.toks[self.pos + i] if self.pos + i < n else self.eoi for i in range(3)]
        if self.pos < n:
            l1 = self.toks[self.pos - 1] if self.pos >= 1 else self.eoi
        else:
            l1 = self.toks[n - 2] if n >= 2 else self.eoi
        return pk + [l1]

    def advance(self, children):
        children.append(('t', self.toks[self.pos], self.idx[self.pos]))
        self.pos += 1

    def predict(self, x):
        return self.g.node_predict(x['id'])

    def first(self, x):
        return self.g.first[('n', x['id'])]

    def guard_ok(self, x):
        """predicate at the start of a branch / loop body (through parentheses)"""
        p = self.leading_pred(x)
        if p is None:
            return True
        if p.get('is_true'):
            return True
        return self.oracle(0, int(p['value'][1:]), self.pos, self.lookahead())

    def leading_pred(self, x):
        if x['k'] == 'concat' and x['ops'] and x['ops'][0]['k'] == 'pred':
            return x['ops'][0]
        if x['k'] == 'paren' and x.get('op') is not None:
            return self.leading_pred(x['op'])
        return None

    # ---- entry
    def parse(self, entry, tokens):
        """tokens: list of token names (skipped tokens already removed). returns (accepted, tree, actions)"""
        self.toks = list(tokens)
        self.idx = list(range(len(tokens)))
        self.n_full = len(tokens)
        return self._run(entry)

    def parse_with_trivia(self, entry, tokens):
        """tokens may contain skipped tokens: they are dropped, leaf indices keep the original positions"""
        self.toks = [t for t in tokens if t not in self.skipped]
        self.idx = [i for i, t in enumerate(tokens) if t not in self.skipped]
        self.n_full = len(tokens)
        return self._run(entry)

    def _run(self, entry):
        g = self.g
        self.pos = 0
        self.actions = []
        self.in_choice = False
        is_start = entry == g.start
        self.eoi = 'EOF' if is_start else 'EOF' + textbook.pascal(entry)
        root_children = []
        try:
            if is_start:
                rule = g.rules[entry]
                env = self.new_env(rule, root_children, is_root=True)
                if rule['regex'] is not None:
                    self.rx(rule['regex'], env)
            else:
                self.call_rule(entry, root_children)
            if self.pos != len(self.toks):
                raise Fail()
        except Fail:
            return False, None, self.actions
        return True, ('n', entry if is_start else 'part', root_children), self.actions

    # ---- rules
    def new_env(self, rule, out, is_root=False):
        return {'rule': rule, 'children': [] if not is_root else out, 'kind': rule['name'], 'elide': False,
                'marks': {}, 'is_root': is_root}

    def recursion(self, rule):
        key = rule['id']
        if key not in self.rec_cache:
            self.rec_cache[key] = textbook.recursion_branches(self.g, rule)
        return self.rec_cache[key]

    def call_rule(self, name, out):
        rule = self.g.rules[name]
        if rule['regex'] is None:
            return      # the function of a rule with an empty body is empty: it leaves no node
        recs = self.recursion(rule)
        if any(r[0] in ('left', 'leftright') for r in recs):
            out.extend(self.pratt(rule, recs, 0))
            return
        env = self.new_env(rule, out)
        self.rx(rule['regex'], env)
        self.close_rule(env, out)

    def close_rule(self, env, out):
        rule = env['rule']
        if rule['elided'] or env['elide']:
            out.extend(env['children'])
        else:
            out.append(('n', env['kind'], env['children']))

    # ---- regex interpretation
    def rx(self, x, env):
        k = x['k']
        if k == 'name' or k == 'symbol':
            nm = self.resolve(x)
            if nm[0] == 'rule':
                self.call_rule(nm[1], env['children'])
            else:
                if self.cur() == nm[1] and self.pos < len(self.toks):
                    self.advance(env['children'])
                else:
                    raise Fail()
        elif k == 'concat':
            for o in x['ops']:
                self.rx(o, env)
        elif k == 'alt':
            c = self.cur()
            for o in x['ops']:
                if c in self.predict(o):
                    if self.guard_ok(o):
                        return self.rx(o, env)
                    # a guarded branch whose predicate is false: later branches may still match
                    continue
            raise Fail()
        elif k == 'choice':
            self.choice(x, env)
        elif k in ('star', 'plus', 'opt'):
            body = x.get('op')
            if body is None:
                return
            if k == 'plus':
                self.rx(body, env)
            fs = self.first(body)
            while self.cur() in fs and self.pos < len(self.toks) and self.guard_ok(body):
                before = self.pos
                self.rx(body, env)
                if k == 'opt':
                    break
                if self.pos == before:
                    raise Fail(hard=True)   # would not terminate
            # an LL(1) parser detects the error here: a token that can neither start the body nor follow the
            # construct.  Inside an ordered-choice attempt this fails the alternative (and lets a later one be
            # tried); elsewhere the input is not a sentence anyway.
            fol = self.g.follow.get(('n', x['id']))
            if fol is not None and self.cur() not in fol and not (self.cur() in fs and self.pos < len(self.toks)):
                raise Fail()
        elif k == 'paren':
            if x.get('op') is not None:
                self.rx(x['op'], env)
        elif k == 'action':
            self.actions.append((env['rule']['name'], int(x['value'][1:]), self.idx[self.pos] if self.pos < len(self.idx) else self.total()))
        elif k == 'assert':
            if self.oracle(1, int(x['value'][1:]), self.pos, self.lookahead()):
                raise Fail()
        elif k == 'rename':
            v = x['value'][1:]
            if v:
                env['kind'] = v
        elif k == 'elision':
            env['elide'] = True
        elif k == 'marker':
            env['marks'][x['value'][1:]] = len(env['children'])
        elif k == 'creation':
            name = x.get('node_name') or env['rule']['name']
            if x.get('whole_rule'):
                start = 0
            else:
                start = env['marks'][x['number']]
            ch = env['children']
            node = ('n', name, ch[start:])
            del ch[start:]
            ch.append(node)
            # marks taken inside the wrapped region now live inside the new node: they are only valid for
            # properly nested regions, which is what the property quantifies over
        elif k == 'commit':
            self.in_choice = False
        elif k in ('pred', 'return'):
            pass
        else:
            raise ValueError(k)

    def total(self):
        return self.n_full

    def resolve(self, x):
        v = x.get('value')
        if x['k'] == 'symbol':
            return ('tok', self.g.tok_by_sym[v])
        if v[0].islower():
            return ('rule', v)
        return ('tok', v)

    def choice(self, x, env):
        ops = x['ops']
        for o in ops[:-1]:
            if self.cur() in self.predict(o):
                save = (self.pos, list(env['children']), env['kind'], env['elide'], dict(env['marks']), len(self.actions))
                self.in_choice = True
                try:
                    self.rx(o, env)
                    self.in_choice = False
                    return
                except Fail as f:
                    committed = not self.in_choice
                    self.in_choice = False
                    if committed or f.hard:
                        raise Fail(hard=True)
                    self.pos = save[0]
                    env['children'][:] = save[1]
                    env['kind'], env['elide'] = save[2], save[3]
                    env['marks'] = save[4]
                    del self.actions[save[5]:]
        self.in_choice = False
        last = ops[-1]
        if self.cur() in self.predict(last):
            self.rx(last, env)
        else:
            raise Fail()

    # ---- directly left-recursive rules: precedence climbing from the *declared* rules
    def powers(self, recs):
        """binding powers from the documentation: earlier branch binds tighter, branches group left unless
        their operator tokens are declared right"""
        n = len(recs)
        right = set(self.dump['sema']['right_assoc'])
        res = {}
        for i, r in enumerate(recs):
            lbp, rbp = 2 * (n - i), 2 * (n - i) + 1
            if r[0] == 'leftright':
                op = textbook.assoc_operator_of(r[1])
                ftoks = self.g.first[('n', op['id'])] if op is not None else set()
                if ftoks and all(t in right for t in ftoks):
                    lbp, rbp = rbp, lbp
            res[r[1]['id']] = (lbp, rbp)
        return res

    def pratt(self, rule, recs, min_bp):
        """returns the list of trees (one node) produced for this rule application"""
        name = rule['name']
        pw = self.powers(recs)
        body = rule['regex']
        left_ids = {r[1]['id']: r for r in recs if r[0] in ('left', 'leftright')}
        right_of = {r[1]['id']: r for r in recs if r[0] == 'right'}
        c = self.cur()
        lhs = None
        for alt in body['ops']:
            if alt['id'] in left_ids:
                continue
            if c in self.predict(alt) and self.guard_ok(alt):
                env = {'rule': rule, 'children': [], 'kind': name, 'elide': False, 'marks': {}, 'is_root': False}
                if alt['id'] in right_of:
                    r = right_of[alt['id']]
                    for i, o in enumerate(alt['ops']):
                        if i == r[3]:
                            env['children'].extend(self.pratt(rule, recs, pw[alt['id']][0]))
                        else:
                            self.rx(o, env)
                else:
                    self.rx(alt, env)
                out = []
                self.close_rule(env, out)
                lhs = out
                break
        if lhs is None:
            raise Fail()
        while True:
            c = self.cur()
            took = False
            for alt_id, r in left_ids.items():
                alt = r[1]
                ops = [(i, o) for i, o in enumerate(alt['ops']) if o['k'] != 'pred' and i != r[2]]
                if not ops:
                    continue
                first_op = ops[0][1]
                if c in self.predict(first_op) and self.pos < len(self.toks) and self.guard_ok(alt):
                    lbp, rbp = pw[alt_id]
                    if lbp < min_bp:
                        return lhs
                    env = {'rule': rule, 'children': list(lhs), 'kind': name, 'elide': False, 'marks': {}, 'is_root': False}
                    for i, o in ops:
                        if r[0] == 'leftright' and i == r[3]:
                            env['children'].extend(self.pratt(rule, recs, rbp))
                        else:
                            self.rx(o, env)
                    lhs = [('n', env['kind'], env['children'])]
                    took = True
                    break
            if not took:
                return lhs


def strip_tree(t, skipped):
    """remove skipped leaves"""
    if t[0] == 't':
        return t
    return ('n', t[1], [strip_tree(c, skipped) for c in t[2] if not (c[0] == 't' and c[1] in skipped)])
