#!/usr/bin/env python3
"""K5: the real `llw` binary on every realisable row of the driver table of
coq/Model/Cli.v, in scratch directories; created/modified files and exit status
are compared with the model's prediction (printed by the extracted driver)."""
import os
import shutil
import subprocess
from concurrent.futures import ThreadPoolExecutor

import lv

# several grammars per verdict: the order and mix of errors and warnings must not matter
TEXTS = {
    'clean': ["token A B;\nstart s;\ns: A B;\n",
              "token A B='b';\nskip B;\nstart s;\ns: t*;\nt: A;\n"],
    'warnings': ["token A B C;\nstart s;\ns: A B;\n",
                 "token A B C D;\nstart s;\ns: A B;\nu: A;\n",
                 "token A;\nstart s;\ns: A e;\ne: ;\n"],
    'syntax': ["token A B;\nstart s;\ns: A ( B;\n",
               "token A B C;\nstart s;\ns: A B;\nt: A ;;\n",
               "token A B;\nstart s\ns: A B;\n"],
    'semantic': ["token A B;\nstart s;\ns: A C;\n",
                 # LL(1) conflict (error) reported before the unused token (warning)
                 "token A B C;\nstart s;\ns: A B | A;\n",
                 # warning first, error last
                 "token A B C;\nstart s;\ns: A B;\nt: A | A;\nstart t;\n",
                 "token A B;\nstart s;\ns: s A | B;\n",
                 "token A B C;\nstart s;\ns: [A] A u;\nu: B;\nv: B;\n"],
}


def formatted_variants(texts):
    """for each verdict a fixed point of the formatter and a text that is not one"""
    import json
    flat = [(k, t) for k, ts in texts.items() for t in ts]
    inp = ''.join(json.dumps(t) + '\n' for k, t in flat)
    r = subprocess.run([lv.HARNESS_BIN, 'front'], input=inp, stdout=subprocess.PIPE, stderr=subprocess.PIPE, text=True, timeout=120)
    outs = [json.loads(l) for l in r.stdout.split('\n') if l.strip()]
    res = {}
    for (k, t), o in zip(flat, outs):
        f = o.get('format')
        f2 = o.get('format2')
        if not isinstance(f, str) or f2 != f:
            raise RuntimeError('cannot build a formatted variant for verdict %s: %r' % (k, o.get('format')))
        v = {True: f, False: t.replace(' ', '   ', 1) if t.replace(' ', '   ', 1) != f else t + '\n\n'}
        if v[False] == f:
            raise RuntimeError('unformatted variant equals the formatted one')
        res.setdefault(k, []).append(v)
    return res


def snapshot(root):
    snap = {}
    for d, _, files in os.walk(root):
        for f in files:
            p = os.path.join(d, f)
            st = os.stat(p)
            snap[os.path.relpath(p, root)] = (open(p, 'rb').read(), st.st_mtime_ns)
    return snap


def run_row(args):
    work, i, row, variants = args[:4]
    vi = args[4] if len(args) > 4 else i
    fl, wd, verdict, want_effects, want_exit = row
    c, fm, g, s, v, o = fl
    lx, ps, ow, fmt = wd
    root = os.path.join(work, 'r%d' % i)
    os.makedirs(os.path.join(root, 'src'))
    os.makedirs(os.path.join(root, 'cwd'))
    os.makedirs(os.path.join(root, 'out'))
    if verdict != 'unreadable':
        vs = variants[verdict]
        open(os.path.join(root, 'src', 'g.llw'), 'w').write(vs[vi % len(vs)][bool(fmt)])
    if lx:
        open(os.path.join(root, 'src', 'lexer.rs'), 'w').write('// hand edited lexer\n')
    if ps:
        open(os.path.join(root, 'src', 'parser.rs'), 'w').write('// hand edited parser\n')
    cmd = [lv.LLW_BIN]
    if c:
        cmd.append('-c')
    if fm:
        cmd.append('-f')
    if g:
        cmd.append('-g')
    if s:
        cmd.append('-s')
    cmd += ['-v'] * v
    if o:
        # an unwritable output directory: a path below a regular file (works for root as well)
        if ow:
            cmd += ['-o', '../out']
        else:
            open(os.path.join(root, 'blocker'), 'w').write('x')
            cmd += ['-o', '../blocker/sub']
    cmd.append('../src/g.llw')
    os.utime(os.path.join(root, 'src'), None)
    before = snapshot(root)
    r = subprocess.run(cmd, cwd=os.path.join(root, 'cwd'), stdout=subprocess.PIPE, stderr=subprocess.PIPE, text=True, timeout=60)
    after = snapshot(root)
    eff = set()
    names = {'src/g.llw': 'grammar', 'src/lexer.rs': 'lexer', 'src/parser.rs': 'parser', 'cwd/parser.gv': 'graph',
             'cwd/generated.rs': 'generated', 'out/generated.rs': 'generated'}
    for p in set(before) | set(after):
        if before.get(p) != after.get(p):
            if p in before and p not in after:
                eff.add('deleted:' + p)
            else:
                eff.add(names.get(p, 'unexpected:' + p))
    shutil.rmtree(root, ignore_errors=True)
    code = r.returncode
    ok = (eff == set(want_effects)) and (str(code) == want_exit)
    return ok, {'cmd': ' '.join(cmd[1:]), 'verdict': verdict, 'grammar': (variants[verdict][vi % len(variants[verdict])][bool(fmt)] if verdict != 'unreadable' else None), 'lexer_exists': bool(lx), 'parser_exists': bool(ps), 'out_writable': bool(ow),
                'formatted': bool(fmt), 'observed_effects': sorted(eff), 'model_effects': sorted(want_effects),
                'observed_exit': code, 'model_exit': want_exit, 'stderr': r.stderr[-300:]}


def model_rows():
    r = subprocess.run([lv.MODEL_DRIVER, 'k5'], stdout=subprocess.PIPE, text=True, timeout=120)
    rows = []
    for l in r.stdout.split('\n'):
        if not l.strip():
            continue
        a, b, v, e, x = [t.strip() for t in l.split('|')]
        fl = tuple(int(t) for t in a.split())
        wd = tuple(int(t) for t in b.split())
        rows.append((fl, wd, v, [t for t in e.split(',') if t], x))
    return rows


def realisable(row):
    fl, wd, v, e, x = row
    # as root an unwritable directory can only be simulated through -o; the default output directory stays writable
    if not wd[2] and not fl[5]:
        return False
    return True


def run_table(work, sample=None, rng=None):
    variants = formatted_variants(TEXTS)
    rows = [r for r in model_rows() if realisable(r)]
    total = len(rows)
    if sample is not None and sample < len(rows):
        rows = rng.sample(rows, sample)
    # the grammar of a row: the rows of one verdict cycle through that verdict's grammars
    rank = {}
    jobs = []
    for i, r in enumerate(rows):
        k = rank.get(r[2], 0)
        rank[r[2]] = k + 1
        jobs.append((work, i, r, variants, k + k // 7))
    with ThreadPoolExecutor(16) as ex:
        res = list(ex.map(run_row, jobs))
    bad = [d for ok, d in res if not ok]
    return total, len(rows), bad, [d for ok, d in res[:3]]
