#!/usr/bin/env python3
"""Earley recogniser on the plain BNF of tools/textbook.py (independent of lelwel's
analysis): membership and longest viable prefix."""
import textbook


class Earley:
    def __init__(self, g, entry):
        """g: textbook.Grammar (BNF built); entry: rule name"""
        self.g = g
        self.prods = g.prods
        self.start = ('r', entry)
        self.productive = g.productive_rules()
        # nullable from scratch (do not rely on analyse())
        nullable = set()
        changed = True
        while changed:
            changed = False
            for a, rhss in self.prods.items():
                if a in nullable:
                    continue
                for rhs in rhss:
                    if all((not g.is_term(s)) and s in nullable for s in rhs):
                        nullable.add(a)
                        changed = True
                        break
        self.nullable = nullable

    def run(self, toks):
        """returns (accepted, viable_len): viable_len = length of the longest prefix of toks that is a
        prefix of some sentence (only productive nonterminals are expanded)"""
        g = self.g
        prods = self.prods
        n = len(toks)
        S = [set() for _ in range(n + 1)]
        order = [[] for _ in range(n + 1)]

        def add(k, item):
            if item not in S[k]:
                S[k].add(item)
                order[k].append(item)
        for pi, rhs in enumerate(prods[self.start]):
            if all(g.is_term(t) or t in self.productive for t in rhs):
                add(0, (self.start, pi, 0, 0))
        viable = 0
        for k in range(n + 1):
            i = 0
            while i < len(order[k]):
                a, pi, dot, origin = order[k][i]
                i += 1
                rhs = prods[a][pi]
                if dot < len(rhs):
                    s = rhs[dot]
                    if g.is_term(s):
                        if k < n and toks[k] == s:
                            add(k + 1, (a, pi, dot + 1, origin))
                    else:
                        if s in self.productive:
                            for qi, _ in enumerate(prods[s]):
                                if all(g.is_term(t) or t in self.productive for t in prods[s][qi]):
                                    add(k, (s, qi, 0, k))
                        if s in self.nullable:
                            add(k, (a, pi, dot + 1, origin))
                else:
                    for (b, qi, d2, o2) in list(S[origin]):
                        r2 = prods[b][qi]
                        if d2 < len(r2) and r2[d2] == a:
                            add(k, (b, qi, d2 + 1, o2))
            if S[k]:
                viable = k
            else:
                break
        accepted = any(a == self.start and dot == len(prods[a][pi]) and origin == 0 for (a, pi, dot, origin) in S[n]) if len(S) > n else False
        # the items of S[k] only exist if the prefix of length k is viable *and* every expanded
        # nonterminal is productive, so a non-empty S[k] means toks[:k] can be extended to a sentence
        return accepted, viable
