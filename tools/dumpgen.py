#!/usr/bin/env python3
"""Sentences and test inputs for a grammar given only as the typed view dumped by the harness
(used for the grammars checked into /repo: examples and lelwel's own grammar)."""
INF = 10 ** 9


class DumpDeriver:
    def __init__(self, dump, rng):
        self.d = dump
        self.rng = rng
        self.rules = {r['name']: r for r in dump['rules'] if r['name']}
        self.rule_by_id = {r['id']: r for r in dump['rules']}
        self.tok_by_id = {t['id']: t['name'] for t in dump['tokens']}
        self.tok_by_sym = {t['symbol']: t['name'] for t in dump['tokens'] if t.get('symbol')}
        skip_ids = set(dump['sema']['skipped'])
        self.skip = [t['name'] for t in dump['tokens'] if t['id'] in skip_ids]
        self.tokens = [t['name'] for t in dump['tokens']]
        self.minlen = {n: INF for n in self.rules}
        ch = True
        while ch:
            ch = False
            for n, r in self.rules.items():
                v = self.mlen(r['regex']) if r['regex'] is not None else 0
                if v < self.minlen[n]:
                    self.minlen[n] = v
                    ch = True

    def target(self, x):
        """('tok', name) | ('rule', name) | None for a name/symbol node"""
        if x['k'] == 'symbol':
            n = self.tok_by_sym.get(x['value'])
            return ('tok', n) if n else None
        v = x.get('value') or ''
        if v and v[0].islower():
            return ('rule', v) if v in self.rules else None
        return ('tok', v) if v in self.tokens else None

    def mlen(self, x):
        k = x['k']
        if k in ('name', 'symbol'):
            t = self.target(x)
            if t is None:
                return INF
            return 1 if t[0] == 'tok' else self.minlen[t[1]]
        if k == 'concat':
            return min(INF, sum(self.mlen(o) for o in x['ops']))
        if k in ('alt', 'choice'):
            return min([self.mlen(o) for o in x['ops']] or [INF])
        if k in ('star', 'opt'):
            return 0
        if k == 'plus':
            return self.mlen(x['op']) if x.get('op') is not None else 0
        if k == 'paren':
            return self.mlen(x['op']) if x.get('op') is not None else 0
        return 0

    def derive(self, entry, budget=30):
        out = []
        self.budget = budget
        r = self.rules[entry]
        if r['regex'] is not None:
            self.gen(r['regex'], out, 0)
        return out

    def gen(self, x, out, depth):
        rng = self.rng
        k = x['k']
        tight = self.budget <= 0 or depth > 12
        if k in ('name', 'symbol'):
            t = self.target(x)
            if t is None:
                return
            if t[0] == 'tok':
                out.append(t[1])
                self.budget -= 1
            else:
                r = self.rules[t[1]]
                if r['regex'] is not None:
                    self.gen(r['regex'], out, depth + 1)
        elif k == 'concat':
            for o in x['ops']:
                self.gen(o, out, depth)
        elif k in ('alt', 'choice'):
            ops = x['ops']
            if tight:
                m = min(self.mlen(o) for o in ops)
                ops = [o for o in ops if self.mlen(o) == m]
            self.gen(rng.choice(ops), out, depth)
        elif k in ('star', 'plus', 'opt'):
            body = x.get('op')
            if body is None:
                return
            n = 1 if k == 'plus' else 0
            if not tight:
                n += rng.choice([0, 0, 1, 1, 2]) if k != 'opt' else rng.choice([0, 1])
            for _ in range(n):
                self.gen(body, out, depth + 1)
        elif k == 'paren':
            if x.get('op') is not None:
                self.gen(x['op'], out, depth)


def mutate(rng, s, alphabet):
    s = list(s)
    x = rng.random()
    if s and x < 0.35:
        del s[rng.randrange(len(s))]
    elif x < 0.7:
        s.insert(rng.randint(0, len(s)), rng.choice(alphabet))
    elif s:
        s[rng.randrange(len(s))] = rng.choice(alphabet)
    return s


def cases_for(dump, rng, n, maxlen=40, pairs=False):
    """[(entry, tokens, bits)]: sentences, mutants, truncations, garbage; with trivia sprinkled in"""
    dv = DumpDeriver(dump, rng)
    start = None
    for r in dump['rules']:
        if r['id'] == dump['sema']['start_rule']:
            start = r['name']
    if start is None:
        return []
    parts = [dv.rule_by_id[p]['name'] for p in dump['sema']['parts'] if p in dv.rule_by_id]
    alphabet = [t for t in dv.tokens if t not in dv.skip] or dv.tokens
    triv = dv.skip + ['Error']
    cases = []
    for e in [start] + parts:
        k = n if e == start else max(3, n // 4)
        sents = []
        for _ in range(max(2, k // 3)):
            s = dv.derive(e, budget=rng.choice([4, 10, 25]))
            if len(s) <= maxlen:
                sents.append(s)
        outs = [[]] + sents
        while len(outs) < k:
            x = rng.random()
            if sents and x < 0.5:
                s = rng.choice(sents)
                for _ in range(rng.choice([1, 1, 2])):
                    s = mutate(rng, s, alphabet)
                outs.append(s)
            elif sents and x < 0.7:
                s = rng.choice(sents)
                outs.append(s[:rng.randint(0, len(s))])
            else:
                outs.append([rng.choice(alphabet) for _ in range(rng.randint(1, 8))])
        def sprinkle(s):
            t = []
            for tok in s:
                while rng.random() < 0.25:
                    t.append(rng.choice(triv))
                t.append(tok)
            while rng.random() < 0.3:
                t.append(rng.choice(triv))
            return t
        if pairs:
            # every input without trivia together with variants that differ in skipped / Error tokens only
            for s in outs[:k]:
                bits = ''.join(rng.choice('01') for _ in range(rng.randint(0, 5)))
                cases.append((e, list(s), bits))
                for _ in range(2):
                    v = sprinkle(s)
                    if rng.random() < 0.3:
                        v = [rng.choice(triv)] + v
                    if len(v) != len(s):
                        cases.append((e, v, bits))
            continue
        for s in outs[:k]:
            if rng.random() < 0.5:
                t = []
                for tok in s:
                    while rng.random() < 0.25:
                        t.append(rng.choice(triv))
                    t.append(tok)
                while rng.random() < 0.3:
                    t.append(rng.choice(triv))
                s = t
            bits = ''.join(rng.choice('01') for _ in range(rng.randint(0, 7)))
            cases.append((e, list(s), bits))
    return cases
