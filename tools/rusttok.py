#!/usr/bin/env python3
"""Token-level comparison of two Rust sources up to what rustfmt may change: whitespace, comments,
commas (trailing commas come and go), a leading `|` in a match-arm pattern, and braces around a
match-arm body that contains no further braces."""
import re

TOK = re.compile(r"""r?#*"(?:\\.|[^"\\])*"#*|'(?:\\.|[^'\\])'|'[A-Za-z_][A-Za-z0-9_]*|[A-Za-z_][A-Za-z0-9_]*|\d[\w.]*|=>|::|->|[^\sA-Za-z0-9_]""")


def tokens(src):
    src = re.sub(r'//[^\n]*', '', src)
    src = re.sub(r'/\*.*?\*/', '', src, flags=re.S)
    t = [x for x in TOK.findall(src) if x != ',']
    # braces around a brace-free arm body
    out = []
    i = 0
    while i < len(t):
        if t[i] == '=>' and i + 1 < len(t) and t[i + 1] == '{':
            j = i + 2
            while j < len(t) and t[j] not in '{}':
                j += 1
            if j < len(t) and t[j] == '}' and ';' not in t[i + 2:j]:
                out.append('=>')
                out.extend(t[i + 2:j])
                i = j + 1
                continue
        out.append(t[i])
        i += 1
    # leading pipe of an arm pattern
    res = []
    for k, x in enumerate(out):
        if x == '|' and res and res[-1] in ('{', '}', 'break', 'continue') :
            continue
        res.append(x)
    return res


def diff(a_src, b_src, limit=5):
    import difflib
    a, b = tokens(a_src), tokens(b_src)
    if a == b:
        return []
    sm = difflib.SequenceMatcher(None, a, b, autojunk=False)
    out = []
    for tag, i1, i2, j1, j2 in sm.get_opcodes():
        if tag != 'equal':
            out.append('%s: %s  |||  %s' % (tag, ' '.join(a[max(0, i1 - 5):i2 + 3])[:200], ' '.join(b[max(0, j1 - 5):j2 + 3])[:200]))
            if len(out) >= limit:
                break
    return out
