#!/usr/bin/env python3
"""Evaluate a seeded change: (1) in a scratch worktree of the current /repo HEAD confirm that the
patch applies, the 59 tests pass and the demonstration fails with the patch / passes without it;
(2) apply the patch to /repo, run the given checks, undo.  Results go to seeded/<name>/meta.json.

usage: seed_eval.py <name> <OUT dir of the seeding agent> <property> <check ids,comma separated> [--skip-confirm]
"""
import json
import os
import shutil
import subprocess
import sys
import time

V = os.path.dirname(os.path.dirname(os.path.abspath(__file__)))


def sh(cmd, cwd=None, timeout=3600, env=None):
    r = subprocess.run(cmd, cwd=cwd, shell=isinstance(cmd, str), stdout=subprocess.PIPE, stderr=subprocess.STDOUT, text=True, timeout=timeout, env=env)
    return r.returncode, r.stdout


def main():
    name, out, prop, checks = sys.argv[1], sys.argv[2], sys.argv[3], sys.argv[4].split(',')
    skip = '--skip-confirm' in sys.argv
    dst = os.path.join(V, 'seeded', name)
    os.makedirs(dst, exist_ok=True)
    for f in os.listdir(out):
        p = os.path.join(out, f)
        if os.path.isdir(p):
            if os.path.exists(os.path.join(dst, f)):
                shutil.rmtree(os.path.join(dst, f))
            shutil.copytree(p, os.path.join(dst, f))
        elif os.path.getsize(p) < 400000:
            shutil.copy(p, dst)
    patch = os.path.join(dst, 'patch.diff')
    meta = {'property': prop, 'name': name, 'ran': []}
    demo = None
    for c in ('demo.sh', 'demo.py'):
        if os.path.exists(os.path.join(dst, c)):
            demo = c
    meta['demo'] = demo
    if not skip:
        wt = '/tmp/seedwt_' + name
        sh('git -C /repo worktree remove --force %s' % wt)
        rc, o = sh('git -C /repo worktree add -q --detach %s HEAD' % wt)
        try:
            env = dict(os.environ)
            env['CARGO_TARGET_DIR'] = wt + '/target'
            env['CARGO_NET_OFFLINE'] = 'true'
            runner = ['bash'] if demo.endswith('.sh') else ['python3']
            t = time.time()
            rc0, o0 = sh(runner + [os.path.join(dst, demo), wt], timeout=3000, env=env)
            meta['demo_without_patch'] = {'exit': rc0, 'tail': o0[-600:]}
            rc, o = sh('git -C %s apply %s' % (wt, patch))
            meta['patch_applies_to_head'] = rc == 0
            if rc != 0:
                meta['apply_error'] = o[-500:]
            else:
                rc1, o1 = sh('cargo test --workspace --offline 2>&1 | grep -E "^test result" | awk \'{p+=$4; f+=$6} END {print p, f}\'', cwd=wt, env=env, timeout=3000)
                meta['tests_with_patch'] = o1.strip()
                rc2, o2 = sh(runner + [os.path.join(dst, demo), wt], timeout=3000, env=env)
                meta['demo_with_patch'] = {'exit': rc2, 'tail': o2[-800:]}
            meta['confirm_seconds'] = round(time.time() - t)
        finally:
            sh('git -C /repo worktree remove --force %s' % wt)
            shutil.rmtree(wt, ignore_errors=True)
    # run my checks against the patched /repo
    rc, o = sh('git -C /repo status --porcelain')
    if o.strip():
        print('refusing: /repo is not clean:', o)
        sys.exit(2)
    rc, o = sh('git -C /repo apply %s' % patch)
    if rc != 0:
        meta['checks'] = 'patch does not apply to /repo HEAD: ' + o[-300:]
    else:
        try:
            res = {}
            for c in checks:
                t = time.time()
                rc, o = sh(['./check', c, '--tier', 'quick'], cwd=V, timeout=3000)
                lines = [l for l in o.split('\n') if l.startswith('VIOLATION') or l.startswith('violation:')]
                res[c] = {'exit': rc, 'seconds': round(time.time() - t), 'lines': [l[:400] for l in lines[:4]]}
                meta['ran'].append('./check %s --tier quick' % c)
            meta['checks'] = res
        finally:
            sh('git -C /repo checkout -- .')
    json.dump(meta, open(os.path.join(dst, 'meta.json'), 'w'), indent=1)
    print(json.dumps(meta, indent=1)[:3000])


if __name__ == '__main__':
    main()
