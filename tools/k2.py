#!/usr/bin/env python3
"""K2: the analysis model (coq/Model/Sema.v, extracted) against the real
`SemanticPass` on the same grammars, plus the conversion dump -> model grammar."""
import json
import subprocess

import lv
from textbook import pascal


class Unresolved(Exception):
    pass


def grammar_sexp(dump):
    """the resolved grammar the model analyses, built from the real front end's typed view"""
    tok_ids = lv.token_ids(dump)
    tok_decl_by_id = {}
    tokdecl = []
    seen = set()
    for t in dump['tokens']:
        if t['name'] is None:
            raise Unresolved('token without name')
        if t['name'] in seen:
            raise Unresolved('token redefined')
        seen.add(t['name'])
        tok_decl_by_id[t['id']] = t['name']
        tokdecl.append('(%d %d)' % (tok_ids[t['name']], t['id']))
    rule_index = {}
    for i, r in enumerate(dump['rules']):
        rule_index[r['id']] = i

    def conv(x):
        k = x['k']
        i = x['id']
        if k in ('name', 'symbol'):
            d = x.get('decl')
            if d is None:
                raise Unresolved('unbound name')
            if d in rule_index:
                return '(rule %d %d)' % (i, rule_index[d])
            if d in tok_decl_by_id:
                return '(tok %d %d)' % (i, tok_ids[tok_decl_by_id[d]])
            raise Unresolved('binding to unknown decl')
        if k == 'concat':
            return '(cat %d (%s))' % (i, ' '.join(conv(o) for o in x['ops']))
        if k == 'alt':
            return '(alt %d (%s))' % (i, ' '.join(conv(o) for o in x['ops']))
        if k == 'choice':
            return '(choice %d (%s))' % (i, ' '.join(conv(o) for o in x['ops']))
        if k in ('star', 'plus', 'opt'):
            if x.get('op') is None:
                raise Unresolved('operator without operand')
            return '(%s %d %s)' % (k, i, conv(x['op']))
        if k == 'paren':
            return '(paren %d %s)' % (i, 'none' if x.get('op') is None else conv(x['op']))
        if k == 'pred':
            if x.get('is_true'):
                return '(leaf %d predt)' % i
            return '(leaf %d (pred %d))' % (i, int(x['value'][1:]))
        m = {'action': 'action', 'assert': 'assert', 'rename': 'rename', 'elision': 'elision', 'marker': 'marker',
             'creation': 'creation', 'commit': 'commit', 'return': 'return'}
        return '(leaf %d %s)' % (i, m[k])
    rules = []
    for r in dump['rules']:
        rules.append('(r %d %s %d)' % (r['id'], 'none' if r['regex'] is None else conv(r['regex']), 1 if r['elided'] else 0))
    sema = dump['sema']
    if sema['start_rule'] is None:
        raise Unresolved('no start rule')
    start = rule_index[sema['start_rule']]
    parts = []
    for pid in sema['parts']:
        nm = dump['rules'][rule_index[pid]]['name']
        parts.append('(%d %d)' % (rule_index[pid], tok_ids['EOF' + pascal(nm)]))
    right = ' '.join(str(tok_ids[n]) for n in sema['right_assoc'] if n in tok_ids)
    skipped = ' '.join(str(d) for d in sema['skipped'])
    ntoks = len(tok_ids)
    return '(grammar (%s) %d (%s) 0 (%s) (%s) (%s) (%s) %d)' % (
        ' '.join(rules), start, ' '.join(parts), right, skipped, ' '.join(tokdecl),
        ' '.join(str(t['id']) for t in dump['tokens']), ntoks), tok_ids


def count_nodes(dump):
    n = [0]

    def visit(x):
        n[0] += 1
        for o in x.get('ops', []) or []:
            visit(o)
        if x.get('op') is not None:
            visit(x['op'])
    for r in dump['rules']:
        if r['regex'] is not None:
            visit(r['regex'])
    return n[0]


MAX_NODES = 160   # the extracted model works on unary numbers and association lists


def run_model(sexps, shards=16):
    """run the extracted analysis on each grammar; sharded over processes"""
    from concurrent.futures import ThreadPoolExecutor
    if len(sexps) > 64:
        k = (len(sexps) + shards - 1) // shards
        chunks = [sexps[i:i + k] for i in range(0, len(sexps), k)]
        with ThreadPoolExecutor(max_workers=shards) as ex:
            parts = list(ex.map(run_model_one, chunks))
        return [x for p in parts for x in p]
    return run_model_one(sexps)


def run_model_one(sexps):
    try:
        r = subprocess.run(['bash', '-c', 'ulimit -s unlimited 2>/dev/null; exec "$0" k2', lv.MODEL_DRIVER],
                           input='\n'.join(sexps) + '\n', stdout=subprocess.PIPE, stderr=subprocess.PIPE, text=True, timeout=300)
    except subprocess.TimeoutExpired:
        open('/tmp/k2_stuck_shard.txt', 'w').write('\n'.join(sexps) + '\n')
        raise
    outs = [l for l in r.stdout.split('\n') if l.strip()]
    if len(outs) != len(sexps):
        raise RuntimeError('model k2 returned %d results for %d grammars: %s' % (len(outs), len(sexps), r.stderr[-1000:]))
    return [json.loads(l) for l in outs]


LL1_CODES = {'E011', 'E012', 'E013', 'E014', 'E015', 'W007', 'E028', 'E029', 'W006'}


def compare(dump, impl_diags, model, tok_ids):
    """returns list of differences between the real SemanticData and the model's"""
    names = {v: k for k, v in tok_ids.items()}
    names[-1] = 'ɛ'
    diffs = []
    sets = dump['sema']['sets']
    for key, mkey in (('first', 'first'), ('follow', 'follow'), ('predict', 'predict'),
                      ('local_follow', 'local_follow'), ('recovery', 'recovery')):
        impl = {k: sorted(v[key]) for k, v in sets.items() if key in v}
        mod = {k: sorted(names[t] for t in v) for k, v in model[mkey].items()}
        if key in ('follow', 'local_follow', 'recovery'):
            # keys created by or_default() with an empty set are not observable
            impl = {k: v for k, v in impl.items() if v}
            mod = {k: v for k, v in mod.items() if v}
        if impl != mod:
            bad = sorted(set(k for k in set(impl) | set(mod) if impl.get(k) != mod.get(k)), key=int)[:3]
            diffs.append('%s sets differ at nodes %s: impl=%s model=%s' % (key, bad, [impl.get(k) for k in bad], [mod.get(k) for k in bad]))
    # diagnostics: multiset of (code, primary span) ; node id -> span through the dump
    spans = {}

    def visit(x):
        spans[x['id']] = tuple(x['span'])
        for o in x.get('ops', []) or []:
            visit(o)
        if x.get('op') is not None:
            visit(x['op'])
    for r in dump['rules']:
        if r['regex'] is not None:
            visit(r['regex'])
    mi = sorted((d['code'], tuple((l['start'], l['end']) for l in d['labels'] if l['primary'])[0]) for d in impl_diags
                if d['code'] in LL1_CODES)
    mm = sorted((c, spans.get(n)) for c, n in model['diags'])
    if mi != mm:
        diffs.append('LL(1)/containment diagnostics differ: impl=%s model=%s' % (mi[:6], mm[:6]))
    if sorted(dump['sema']['in_choice']) != sorted(model['in_choice']):
        diffs.append('used_in_ordered_choice differs')
    # used: the implementation marks unused parts as used inside RecoverySetGenerator (only when it runs)
    iu = set(dump['sema']['used'])
    mu = set(model['used'])
    part_ids = set(dump['sema']['parts'])
    if not (mu <= iu and iu - mu <= part_ids):
        diffs.append('used sets differ: impl=%s model=%s' % (sorted(iu), sorted(mu)))
    ir = {}
    for k, bs in dump['sema']['recursive'].items():
        ir[int(k)] = sorted((b['kind'], b['id'], b.get('l', -1), b.get('r', -1), tuple(b['bp'])) for b in bs)
    rule_ids = [r['id'] for r in dump['rules']]
    bp = {k: (a, b) for k, a, b in model['bp']}
    mr = {}
    for ri, bs in model['recursive']:
        mr[rule_ids[ri]] = sorted((k, i, l, r, bp.get(i)) for k, i, l, r in bs)
    if ir != mr:
        diffs.append('recursive branches / binding powers differ: impl=%s model=%s' % (ir, mr))
    return diffs
