#!/usr/bin/env python3
"""Translator: an emitted `generated.rs` (output of lelwel's Rust back end)  ->  a
`program` term of coq/Model/Exec.v, as an s-expression (for the extracted OCaml
driver) or as a Coq term (for regenerated obligations).

The emitted code is a closed set of templates (src/backend/rust.rs).  Everything
outside them makes the translator fail loudly (TranslateError): a changed
template is a broken tie, never silently mistranslated.
"""
import re
import sys
import json


class TranslateError(Exception):
    pass


def strip_strings_balance(line):
    """returns (paren_balance) of a line ignoring string literals and char literals"""
    bal = 0
    i = 0
    n = len(line)
    while i < n:
        c = line[i]
        if c == '"':
            i += 1
            while i < n and line[i] != '"':
                if line[i] == '\\':
                    i += 1
                i += 1
        elif c == '(':
            bal += 1
        elif c == ')':
            bal -= 1
        i += 1
    return bal


def join_lines(lines):
    """join physical lines into logical ones (multi-line patterns, parameter lists)"""
    out = []
    cur = None
    bal = 0
    for raw in lines:
        l = raw.strip()
        if not l:
            continue
        if cur is None:
            cur = l
            bal = strip_strings_balance(l)
        else:
            cur = cur + ' ' + l
            bal += strip_strings_balance(l)
        pat_start = re.match(r'^\|?\s*Token::\w+', cur) is not None
        if bal > 0 and not (l.endswith('{') and not cur.startswith('fn rec')):
            continue
        if pat_start and '=>' not in cur:
            continue
        out.append(cur)
        cur = None
        bal = 0
    if cur is not None:
        raise TranslateError('unterminated logical line: ' + cur)
    return out


class Node:
    def __init__(self, header, children=None):
        self.header = header
        self.children = children  # None for leaf

    def __repr__(self):
        return 'Node(%r,%r)' % (self.header, self.children)


def build_tree(lines):
    """brace tree. A line '} tail {' closes one block and opens a sibling whose header is '} tail {'."""
    root = Node('<root>', [])
    stack = [root]
    for l in lines:
        if l.startswith('}'):
            if len(stack) == 1:
                raise TranslateError('unbalanced }')
            stack.pop()
            rest = l[1:].strip()
            if rest.endswith('{'):
                n = Node('}' + rest, [])
                stack[-1].children.append(n)
                stack.append(n)
            elif rest in ('', ';'):
                pass
            else:
                raise TranslateError('unexpected text after }: ' + l)
        elif l.endswith('{'):
            n = Node(l, [])
            stack[-1].children.append(n)
            stack.append(n)
        else:
            stack[-1].children.append(Node(l))
    if len(stack) != 1:
        raise TranslateError('unbalanced {')
    return root


STR = r'("(?:[^"\\]|\\.)*")'
P = r'(?:self|parser)'


def unescape_rust(s):
    # s includes the quotes; messages were produced by escape_default()
    body = s[1:-1]
    out = []
    i = 0
    while i < len(body):
        c = body[i]
        if c == '\\':
            i += 1
            d = body[i]
            if d == 'n':
                out.append('\n')
            elif d == 't':
                out.append('\t')
            elif d == 'r':
                out.append('\r')
            elif d == 'u':
                j = body.index('}', i)
                out.append(chr(int(body[i + 2:j], 16)))
                i = j
            else:
                out.append(d)
        else:
            out.append(c)
        i += 1
    return ''.join(out)


class Translator:
    def __init__(self, text, tok_ids):
        self.text = text
        self.tok_ids = dict(tok_ids)  # name -> id
        self.msgs = ['<assertion>']
        self.msg_ids = {}
        self.kinds = []      # names in Rule enum order
        self.kind_ids = {}   # PascalCase -> id
        self.cb_kind = {}    # callback (snake) name -> id
        self.rule_ids = {}   # rule fn name -> rid
        self.features = set()

    # ---- helpers
    def tok(self, name):
        if name not in self.tok_ids:
            raise TranslateError('unknown token Token::' + name)
        return self.tok_ids[name]

    def pats(self, s):
        s = s.strip()
        names = [x.strip() for x in s.split('|') if x.strip()]
        res = []
        for x in names:
            m = re.fullmatch(r'Token::(\w+)', x)
            if not m:
                raise TranslateError('bad pattern: ' + s)
            res.append(self.tok(m.group(1)))
        return res

    def msg(self, lit):
        s = unescape_rust(lit)
        if s not in self.msg_ids:
            self.msg_ids[s] = len(self.msgs)
            self.msgs.append(s)
        return self.msg_ids[s]

    def kind(self, pascal):
        if pascal not in self.kind_ids:
            raise TranslateError('unknown Rule::' + pascal)
        return self.kind_ids[pascal]

    def var(self, v):
        if v in ('m', 'start', 'lhs', 'rhs'):
            return v
        mm = re.fullmatch(r'm(\d+)', v)
        if mm:
            return ('mk', int(mm.group(1)))
        raise TranslateError('unknown variable ' + v)

    # ---- preamble
    def parse_preamble(self):
        t = self.text
        m = re.search(r'pub enum Rule \{(.*?)\n\}', t, re.S)
        if not m:
            raise TranslateError('no Rule enum')
        self.kinds = [x.strip().rstrip(',') for x in m.group(1).split('\n') if x.strip()]
        if 'Error' not in self.kinds:
            raise TranslateError('Rule enum lacks Error')
        nid = 1
        for k in self.kinds:
            if k == 'Error':
                self.kind_ids[k] = 0
            else:
                self.kind_ids[k] = nid
                nid += 1
        # Debug names: Rule::Pascal => write!(f, "snake")
        self.kind_names = {}
        for mm in re.finditer(r'Rule::(\w+) => write!\(f, "(\w+)"\),', t):
            self.kind_names[self.kind(mm.group(1))] = mm.group(2)
        # create_node dispatch
        for mm in re.finditer(r'Rule::(\w+) => self\.create_node_(\w+)\(node_ref, diags\),', t):
            self.cb_kind[mm.group(2)] = self.kind(mm.group(1))
        # delete_node arms
        self.deletable = []
        dm = re.search(r'fn delete_node\(&mut self, _rule: Rule, _node_ref: NodeRef\) \{(.*?)\n    \}', t, re.S)
        if not dm:
            raise TranslateError('no delete_node')
        for mm in re.finditer(r'Rule::(\w+) => self\.delete_node_(\w+)\(_node_ref\),', dm.group(1)):
            self.deletable.append(self.kind(mm.group(1)))
        # skipped tokens
        sm = re.search(r'fn is_skipped\(token: Token\) -> bool \{\s*matches!\(token, (.*?)\)\s*\}', t, re.S)
        if not sm:
            raise TranslateError('no is_skipped')
        self.skipped = self.pats(sm.group(1))
        # entry points
        pm = re.search(r'pub fn parse\(self, diags: [^\n]*\n\s*self\.parse_rule\(\|parser, diags\| parser\.rule_(\w+)\(diags\), diags, Rule::(\w+)\)', t)
        if not pm:
            raise TranslateError('no parse entry')
        self.start_rule = pm.group(1)
        self.start_kind = self.kind(pm.group(2))
        self.parts = []
        for mm in re.finditer(r'pub fn parse_(\w+)\(mut self, diags: &mut Vec<Diagnostic>\) -> Cst<\'a> \{\s*self\.end_of_input = Token::(\w+);\s*self\.parse_rule\(\|parser, diags\| \{ parser\.rule_(\w+)\(diags\); \}, diags, Rule::(\w+)\)', t):
            if mm.group(1) != mm.group(3):
                raise TranslateError('part name mismatch')
            self.parts.append((mm.group(1), self.tok(mm.group(2)), self.kind(mm.group(4))))
        # the trailing-input diagnostic of parse_rule (whatever way it is reported: the model reports it
        # through error(); a different way shows up as a behavioural disagreement, not as a translation failure)
        pr = re.search(r'fn parse_rule<.*?\n    \}\n', t, re.S)
        em = re.search(r'err!\[self, ' + STR + r'\]', pr.group(0)) if pr else None
        if not em:
            raise TranslateError('no trailing-input message')
        self.msg_eof = self.msg(em.group(1))

    # ---- rule functions
    def parse_rules(self):
        t = self.text
        idx = t.find('    fn rule_')
        idx2 = t.find('    #[allow(unused_assignments)]\n    fn rule_')
        if idx < 0:
            raise TranslateError('no rule functions')
        if 0 <= idx2 < idx:
            idx = idx2
        end = t.find('\n}\n\n#[allow(clippy::ptr_arg)]\npub trait ParserCallbacks', idx)
        if end < 0:
            raise TranslateError('no end of impl')
        body = t[idx:end]
        lines = join_lines(body.split('\n'))
        tree = build_tree(lines)
        fns = []
        for n in tree.children:
            if n.children is None:
                if n.header == '#[allow(unused_assignments)]':
                    continue
                raise TranslateError('unexpected top-level line: ' + n.header)
            m = re.fullmatch(r"fn rule_(\w+)\(&mut self, diags: &mut Vec<<Self as ParserCallbacks<'a>>::Diagnostic>\) (-> Option<\(\)> )?\{", n.header)
            if not m:
                raise TranslateError('bad fn header: ' + n.header)
            fns.append((m.group(1), m.group(2) is not None, n.children))
        for i, (name, _, _) in enumerate(fns):
            self.rule_ids[name] = i
        self.rules = []
        for name, opt, children in fns:
            self.cur_rule = name
            rec = None
            ch = list(children)
            if ch and ch[0].children is not None and ch[0].header.startswith("fn rec<'a>("):
                h = ch[0].header
                mh = re.fullmatch(r"fn rec<'a>\( parser: &mut Parser<'a>, diags: &mut Vec<<Parser<'a> as ParserCallbacks<'a>>::Diagnostic>,( min_bp: usize,)? mut lhs: MarkClosed, \) (-> Option<\(\)> )?\{", h)
                if not mh:
                    raise TranslateError('bad rec header: ' + h)
                if (mh.group(2) is not None) != opt:
                    raise TranslateError('rec/fn Option mismatch')
                rch = list(ch[0].children)
                if opt:
                    rch = self.strip_some(rch)
                rec = (mh.group(1) is not None, self.block(rch))
                ch = ch[1:]
                self.features.add('pratt')
            if opt:
                ch = self.strip_some(ch)
            self.rules.append((self.rule_ids[name], name, opt, self.block(ch), rec))

    def strip_some(self, ch):
        if not ch or ch[-1].children is not None or ch[-1].header != 'Some(())':
            raise TranslateError('Option fn without trailing Some(())')
        return ch[:-1]

    def block(self, ch):
        out = []
        i = 0
        n = len(ch)
        while i < n:
            c = ch[i]
            h = c.header
            if c.children is None:
                # ---------- leaves
                m = re.fullmatch(r'(try_)?expect!\((\w+), ' + STR + r', ' + P + r', diags\);', h)
                if m:
                    out.append(('expect', self.tok(m.group(2)), 1 if m.group(1) else 0, self.msg(m.group(3))))
                    i += 1
                    continue
                m = re.fullmatch(P + r'\.rule_(\w+)\(diags\)(\?)?;', h)
                if m:
                    if m.group(1) not in self.rule_ids:
                        raise TranslateError('call of unknown rule_' + m.group(1))
                    out.append(('call', self.rule_ids[m.group(1)], 1 if m.group(2) else 0))
                    i += 1
                    continue
                m = re.fullmatch(r'rec\(' + P + r', diags, (?:(\d+), )?(\w+)\)(\?)?;', h)
                if m:
                    out.append(('rec', None if m.group(1) is None else int(m.group(1)), self.var(m.group(2)), 1 if m.group(3) else 0))
                    i += 1
                    continue
                m = re.fullmatch(r'let (\w+) = ' + P + r'\.mark\(diags\);', h)
                if m:
                    out.append(('letmark', self.var(m.group(1))))
                    i += 1
                    continue
                if re.fullmatch(r'let m = ' + P + r'\.open\(diags\);', h):
                    out.append(('letopen',))
                    i += 1
                    continue
                m = re.fullmatch(r'let m = ' + P + r'\.open_before\((\w+), diags\);', h)
                if m:
                    out.append(('letopenbefore', self.var(m.group(1))))
                    i += 1
                    continue
                if h == 'let mut elide = false;':
                    out.append(('letelide',))
                    i += 1
                    continue
                if h == 'elide = true;':
                    out.append(('setelide',))
                    self.features.add('elide')
                    i += 1
                    continue
                m = re.fullmatch(r'(let mut )?node_kind = Rule::(\w+);', h)
                if m:
                    out.append(('kind', 1 if m.group(1) else 0, self.kind(m.group(2))))
                    i += 1
                    continue
                m = re.fullmatch(r'let closed = ' + P + r'\.close\(m, (?:Rule::(\w+)|(node_kind)), diags\);', h)
                if m:
                    if i + 1 >= n:
                        raise TranslateError('close without create_node')
                    h2 = ch[i + 1].header
                    if m.group(2):
                        if not re.fullmatch(P + r'\.create_node\(node_kind, NodeRef\(closed\.0\), diags\);', h2):
                            raise TranslateError('bad create after close: ' + h2)
                        k = None
                    else:
                        m2 = re.fullmatch(P + r'\.create_node_(\w+)\(NodeRef\(closed\.0\), diags\);', h2)
                        if not m2:
                            raise TranslateError('bad create after close: ' + h2)
                        k = self.kind(m.group(1))
                        if self.cb_kind.get(m2.group(1)) != k:
                            raise TranslateError('callback/kind mismatch: %s vs Rule::%s' % (m2.group(1), m.group(1)))
                    i += 2
                    assign = 0
                    if i < n and ch[i].children is None and ch[i].header == 'lhs = closed;':
                        assign = 1
                        i += 1
                    out.append(('close', k, assign))
                    continue
                m = re.fullmatch(r'let open_node = ' + P + r'\.open_before\((\w+), diags\);', h)
                if m:
                    v = m.group(1)
                    if i + 2 >= n:
                        raise TranslateError('truncated creation')
                    m1 = re.fullmatch(P + r'\.close\(open_node, Rule::(\w+), diags\);', ch[i + 1].header)
                    m2 = re.fullmatch(P + r'\.create_node_(\w+)\(NodeRef\((\w+)\.0\), diags\);', ch[i + 2].header)
                    if not m1 or not m2 or m2.group(2) != v:
                        raise TranslateError('bad creation: ' + h)
                    k = self.kind(m1.group(1))
                    if self.cb_kind.get(m2.group(1)) != k:
                        raise TranslateError('creation callback/kind mismatch')
                    out.append(('create', self.var(v), k))
                    self.features.add('creation')
                    i += 3
                    continue
                m = re.fullmatch(P + r'\.action_(\w+)_(\d+)\(diags\);', h)
                if m:
                    if m.group(1) != self.cur_rule:
                        raise TranslateError('action of another rule')
                    out.append(('action', int(m.group(2))))
                    self.features.add('action')
                    i += 1
                    continue
                m = re.fullmatch(P + r'\.in_ordered_choice = (true|false);', h)
                if m:
                    out.append(('setchoice', 1 if m.group(1) == 'true' else 0))
                    if m.group(1) == 'false':
                        self.features.add('commit?')
                    i += 1
                    continue
                if h == 'break;':
                    out.append(('break',))
                    i += 1
                    continue
                if h == 'continue;':
                    out.append(('continue',))
                    i += 1
                    continue
                m = re.fullmatch(P + r'\.error\(diags, err!\[' + P + r', ' + STR + r'\]\);', h)
                if m:
                    out.append(('error', self.msg(m.group(1))))
                    i += 1
                    continue
                m = re.fullmatch(P + r'\.advance_with_error\(diags, err!\[' + P + r', ' + STR + r'\]\);', h)
                if m:
                    out.append(('adverr', self.msg(m.group(1))))
                    i += 1
                    continue
                raise TranslateError('unknown statement: ' + h)
            # ---------- blocks
            if re.fullmatch(r'match ' + P + r'\.current \{', h):
                out.append(self.match(c.children))
                i += 1
                continue
            if h == 'loop {':
                out.append(('loop', self.block(c.children)))
                i += 1
                continue
            m = re.fullmatch(r'if (\d+) < min_bp \{', h)
            if m:
                if len(c.children) != 1 or c.children[0].header != 'break;':
                    raise TranslateError('bad min_bp test')
                out.append(('ifbpbreak', int(m.group(1))))
                i += 1
                continue
            if h == 'if !elide {':
                out.append(('ifnotelide', self.block(c.children)))
                i += 1
                continue
            m = re.fullmatch(r'if let Some\(diag\) = ' + P + r'\.assertion_(\w+)_(\d+)\(\) \{', h)
            if m:
                if m.group(1) != self.cur_rule:
                    raise TranslateError('assertion of another rule')
                cc = list(c.children)
                ocr = 0
                if cc and cc[0].children is not None and self.is_ocr(cc[0]):
                    ocr = 1
                    cc = cc[1:]
                if [x.header for x in cc] != [self.pname(h) + '.error_since_advance = true;', 'diags.push(diag);']:
                    raise TranslateError('bad assertion body')
                out.append(('assert', int(m.group(2)), ocr))
                self.features.add('assert')
                i += 1
                continue
            if self.is_ocr(c):
                out.append(('ocr',))
                i += 1
                continue
            if re.fullmatch(r'if ' + P + r'\.active_error\(\) \{', h):
                out.append(self.return_if_error(c.children))
                self.features.add('return')
                i += 1
                continue
            if h == "'ordered_choice: {":
                out.append(self.ordered_choice(c.children))
                self.features.add('choice')
                i += 1
                continue
            raise TranslateError('unknown block: ' + h)
        return out

    def pname(self, h):
        return 'parser' if 'parser.' in h else 'self'

    def is_ocr(self, c):
        return (c.children is not None and re.fullmatch(r'if ' + P + r'\.in_ordered_choice \{', c.header) is not None
                and len(c.children) == 1 and c.children[0].header == 'return None;')

    def match(self, ch):
        arms = []
        default = None
        for c in ch:
            h = c.header
            if default is not None:
                raise TranslateError('arm after default')
            if c.children is None:
                m = re.fullmatch(r'(.*) => break,', h)
                if not m:
                    raise TranslateError('bad arm: ' + h)
                arms.append((self.pats(m.group(1)), None, [('break',)]))
                continue
            if h == '_ => {':
                default = self.block(c.children)
                continue
            m = re.fullmatch(r'(.*?)( if (true|' + P + r'\.predicate_(\w+)_(\d+)\(\)))? => \{', h)
            if not m:
                raise TranslateError('bad arm: ' + h)
            g = None
            if m.group(2):
                if m.group(3) == 'true':
                    g = 'true'
                else:
                    if m.group(4) != self.cur_rule:
                        raise TranslateError('predicate of another rule')
                    g = int(m.group(5))
                self.features.add('pred')
            arms.append((self.pats(m.group(1)), g, self.block(c.children)))
        if default is None:
            raise TranslateError('match without default')
        return ('match', arms, default)

    def return_if_error(self, ch):
        cc = list(ch)
        if not cc or cc[-1].children is not None or cc[-1].header not in ('return;', 'return None;'):
            raise TranslateError('bad return block')
        opt = 1 if cc[-1].header == 'return None;' else 0
        cc = cc[:-1]
        hs = [x.header for x in cc]
        if not cc:
            return ('retiferr', 'uncond', opt)
        if len(cc) == 2 and re.fullmatch(r'let closed = ' + P + r'\.close\(m, Rule::Error, diags\);', hs[0]) \
                and re.fullmatch(P + r'\.create_node_error\(NodeRef\(closed\.0\), diags\);', hs[1]):
            return ('retiferr', 'none', opt)
        if len(cc) == 1 and hs[0] == 'if !elide {':
            h2 = [x.header for x in cc[0].children]
            if len(h2) == 3 and re.fullmatch(r'let m = ' + P + r'\.open_before\(start, diags\);', h2[0]) \
                    and re.fullmatch(r'let closed = ' + P + r'\.close\(m, Rule::Error, diags\);', h2[1]) \
                    and re.fullmatch(P + r'\.create_node_error\(NodeRef\(closed\.0\), diags\);', h2[2]):
                return ('retiferr', 'cond', opt)
        raise TranslateError('bad return block body: ' + repr(hs))

    def ordered_choice(self, ch):
        cc = list(ch)
        if not cc or not re.fullmatch(r'let state = ' + P + r'\.get_state\(diags\);', cc[0].header):
            raise TranslateError('choice without get_state')
        cc = cc[1:]
        save_elide = save_kind = 0
        if cc and cc[0].header == 'let elision_state = elide;':
            save_elide = 1
            cc = cc[1:]
        if cc and cc[0].header == 'let node_kind_state = node_kind;':
            save_kind = 1
            cc = cc[1:]
        alts = []
        while cc and cc[0].children is not None:
            m = re.fullmatch(r'if matches!\(' + P + r'\.current, (.*)\) \{', cc[0].header)
            if not m:
                raise TranslateError('bad choice alternative: ' + cc[0].header)
            pats = self.pats(m.group(1))
            inner = cc[0].children
            ih = [x.header for x in inner]
            # non-final alternative?
            if inner and inner[0].children is not None and inner[0].header == 'if (|| {':
                body = self.strip_some(list(inner[0].children))
                if len(inner) < 3 or inner[1].header != '})().is_some() {' or [x.header for x in inner[1].children] != ["break 'ordered_choice;"]:
                    raise TranslateError('bad closure tail')
                rest = ih[2:]
                exp = ['X.set_state(&state, diags);']
                if save_elide:
                    exp.append('elide = elision_state;')
                if save_kind:
                    exp.append('node_kind = node_kind_state;')
                if len(rest) != len(exp) or not re.fullmatch(P + r'\.set_state\(&state, diags\);', rest[0]) or rest[1:] != exp[1:]:
                    raise TranslateError('bad restore sequence: ' + repr(rest))
                alts.append((pats, self.block(body)))
                cc = cc[1:]
                continue
            raise TranslateError('choice alternative without closure before the final one')
        if not cc or not re.fullmatch(P + r'\.in_ordered_choice = false;', cc[0].header):
            raise TranslateError('choice without in_ordered_choice reset')
        cc = cc[1:]
        if len(cc) != 2 or cc[0].children is None or cc[1].children is None:
            raise TranslateError('bad final alternative')
        m = re.fullmatch(r'if matches!\(' + P + r'\.current, (.*)\) \{', cc[0].header)
        if not m or cc[1].header != '}else {':
            raise TranslateError('bad final alternative header: %s / %s' % (cc[0].header, cc[1].header))
        last_pats = self.pats(m.group(1))
        last = self.block(cc[0].children)
        eh = [x.header for x in cc[1].children]
        m2 = re.fullmatch(P + r'\.advance_with_error\(diags, err!\[' + P + r', ' + STR + r'\]\);', eh[0]) if len(eh) == 1 else None
        if not m2:
            raise TranslateError('bad choice else arm')
        return ('ordchoice', save_elide, save_kind, alts, last_pats, last, self.msg(m2.group(1)))

    def run(self):
        self.parse_preamble()
        self.parse_rules()
        return self


# ---------- rendering

def sx(x):
    if x is None:
        return 'none'
    if isinstance(x, bool):
        return '1' if x else '0'
    if isinstance(x, int):
        return str(x)
    if isinstance(x, str):
        return x
    if isinstance(x, (list, tuple)):
        return '(' + ' '.join(sx(y) for y in x) + ')'
    raise TypeError(x)


def program_sexp(tr):
    rules = []
    for rid, name, opt, body, rec in tr.rules:
        rules.append(('fn', rid, 1 if opt else 0, list(body), 'none' if rec is None else ('rec', 1 if rec[0] else 0, list(rec[1]))))
    part_kind = tr.kind_ids.get('Part', 0)
    return sx(('program', list(rules), tr.rule_ids[tr.start_rule], tr.start_kind, part_kind, list(tr.deletable)))


def coq_list(xs):
    return '[' + '; '.join(xs) + ']'


def coq_var(v):
    if isinstance(v, tuple):
        return '(VMk %d)' % v[1]
    return {'m': 'VM', 'start': 'VStart', 'lhs': 'VLhs', 'rhs': 'VRhs'}[v]


def coq_stmt(s):
    k = s[0]
    b = lambda x: 'true' if x else 'false'
    nl = lambda xs: coq_list([str(x) for x in xs])
    if k == 'expect':
        return '(SExpect %d %s %d)' % (s[1], b(s[2]), s[3])
    if k == 'call':
        return '(SCall %d %s)' % (s[1], b(s[2]))
    if k == 'rec':
        return '(SRec %s %s %s)' % ('None' if s[1] is None else '(Some %d)' % s[1], coq_var(s[2]), b(s[3]))
    if k == 'letmark':
        return '(SLetMark %s)' % coq_var(s[1])
    if k == 'letopen':
        return 'SLetOpen'
    if k == 'letopenbefore':
        return '(SLetOpenBefore %s)' % coq_var(s[1])
    if k == 'letelide':
        return 'SLetElide'
    if k == 'setelide':
        return 'SSetElide'
    if k == 'kind':
        return '(SKind %s %d)' % (b(s[1]), s[2])
    if k == 'close':
        return '(SClose %s %s)' % ('None' if s[1] is None else '(Some %d)' % s[1], b(s[2]))
    if k == 'ifnotelide':
        return '(SIfNotElide %s)' % coq_block(s[1])
    if k == 'create':
        return '(SCreate %s %d)' % (coq_var(s[1]), s[2])
    if k == 'action':
        return '(SAction %d)' % s[1]
    if k == 'assert':
        return '(SAssert %d %s)' % (s[1], b(s[2]))
    if k == 'setchoice':
        return '(SSetChoice %s)' % b(s[1])
    if k == 'match':
        arms = []
        for pats, g, body in s[1]:
            gs = 'None' if g is None else ('(Some GTrue)' if g == 'true' else '(Some (GPred %d))' % g)
            arms.append('(%s, %s, %s)' % (nl(pats), gs, coq_block(body)))
        return '(SMatch %s %s)' % (coq_list(arms), coq_block(s[2]))
    if k == 'loop':
        return '(SLoop %s)' % coq_block(s[1])
    if k == 'break':
        return 'SBreak'
    if k == 'continue':
        return 'SContinue'
    if k == 'ifbpbreak':
        return '(SIfBpBreak %d)' % s[1]
    if k == 'ordchoice':
        alts = ['(%s, %s)' % (nl(p), coq_block(bd)) for p, bd in s[3]]
        return '(SOrdChoice %s %s %s %s %s %d)' % (b(s[1]), b(s[2]), coq_list(alts), nl(s[4]), coq_block(s[5]), s[6])
    if k == 'retiferr':
        return '(SReturnIfError %s %s)' % ({'none': 'ENone', 'uncond': 'EUncond', 'cond': 'ECond'}[s[1]], b(s[2]))
    if k == 'error':
        return '(SError %d)' % s[1]
    if k == 'adverr':
        return '(SAdvErr %d)' % s[1]
    if k == 'ocr':
        return 'SOcr'
    raise TypeError(k)


def coq_block(ss):
    return coq_list([coq_stmt(x) for x in ss])


def program_coq(tr, name='prog'):
    rules = []
    for rid, nm, opt, body, rec in tr.rules:
        r = 'None' if rec is None else '(Some (%s, %s))' % ('true' if rec[0] else 'false', coq_block(rec[1]))
        rules.append('(* %s *) (%d, mkFn %s %s %s)' % (nm, rid, 'true' if opt else 'false', coq_block(body), r))
    return 'Definition %s : program := mkProg\n %s\n %d %d %d %s.\n' % (
        name, coq_list(rules).replace('; (*', ';\n  (*'), tr.rule_ids[tr.start_rule], tr.start_kind,
        tr.kind_ids.get('Part', 0), coq_list([str(x) for x in tr.deletable]))


def translate(text, tok_ids):
    return Translator(text, tok_ids).run()


def translate_partial(text, tok_ids):
    """preamble (enums, entry points, callback tables) and the names of the rule functions only; the rule bodies
    could not be read.  Enough to build the implementation-side driver, so that the direct oracles can still search
    for a failing input when the emitted code has left the command language.  `rules_error` says why."""
    t = Translator(text, tok_ids)
    t.parse_preamble()
    try:
        t.parse_rules()
        t.rules_error = None
    except TranslateError as e:
        t.rules_error = str(e)
        if not t.rule_ids:
            raise
    return t


def token_ids_from_generated(text):
    """Token ids when no external table is given: EOF=0, Error=1, others in order of first appearance."""
    ids = {'EOF': 0, 'Error': 1}
    for m in re.finditer(r'Token::(\w+)|expect!\((\w+),', text):
        nm = m.group(1) or m.group(2)
        if nm not in ids:
            ids[nm] = len(ids)
    return ids


if __name__ == '__main__':
    text = open(sys.argv[1]).read()
    ids = token_ids_from_generated(text)
    tr = translate(text, ids)
    if len(sys.argv) > 2 and sys.argv[2] == '--coq':
        print(program_coq(tr))
    else:
        print(program_sexp(tr))
        print(json.dumps({'tokens': ids, 'kinds': tr.kind_ids, 'msgs': tr.msgs, 'skipped': tr.skipped,
                          'parts': tr.parts, 'msg_eof': tr.msg_eof, 'features': sorted(tr.features)}))
