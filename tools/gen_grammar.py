#!/usr/bin/env python3
"""Random grammar generator (mostly-LL(1) by construction) and sentence /
mutant generator.  Every random choice comes from the Random instance passed
in, so cases replay exactly from VERIF_SEED."""
import random

TOKS = ['A', 'B', 'C', 'D', 'E', 'F', 'G', 'H', 'I', 'J', 'K', 'L', 'M', 'N', 'O', 'P', 'Q', 'R', 'S', 'T']


class G:
    """a generated grammar: declarations + Python-side AST"""

    def __init__(self):
        self.tokens = []      # names
        self.skip = []        # names
        self.right = []       # names
        self.rules = []       # (name, elided, regex or None)
        self.start = None
        self.parts = []
        self.features = set()

    def text(self):
        """declarations top-down, or bottom-up when [bottom_up] is set (a quarter of the generated grammars)"""
        lines = self.lines()
        if getattr(self, 'bottom_up', False):
            lines = list(reversed(lines))
        return '\n'.join(lines) + '\n'

    def lines(self):
        out = []
        out.append('token ' + ' '.join(self.tokens) + ';')
        if self.skip:
            out.append('skip ' + ' '.join(self.skip) + ';')
        if self.right:
            out.append('right ' + ' '.join(self.right) + ';')
        out.append('start %s;' % self.start)
        if self.parts:
            out.append('part ' + ' '.join(self.parts) + ';')
        for name, elided, rx in self.rules:
            out.append('%s%s: %s;' % (name, '^' if elided else '', show(rx, 0) if rx is not None else ''))
        return out

    def text_permuted(self, rng):
        """the same declarations in a random order (token list split into several declarations)"""
        decls = []
        toks = list(self.tokens)
        rng.shuffle(toks)
        k = rng.randint(1, min(3, len(toks)))
        cuts = sorted(rng.sample(range(1, len(toks)), k - 1)) if k > 1 else []
        prev = 0
        for c in cuts + [len(toks)]:
            decls.append('token ' + ' '.join(toks[prev:c]) + ';')
            prev = c
        if self.skip:
            decls.append('skip ' + ' '.join(self.skip) + ';')
        if self.right:
            decls.append('right ' + ' '.join(self.right) + ';')
        decls.append('start %s;' % self.start)
        if self.parts:
            decls.append('part ' + ' '.join(self.parts) + ';')
        for name, elided, rx in self.rules:
            decls.append('%s%s: %s;' % (name, '^' if elided else '', show(rx, 0) if rx is not None else ''))
        rng.shuffle(decls)
        return '\n'.join(decls) + '\n'

    def text_reversed(self):
        """the same declarations in exactly the reverse order (rules bottom-up, directives last)"""
        lines = self.lines()
        if not getattr(self, 'bottom_up', False):
            lines = list(reversed(lines))
        return '\n'.join(lines) + '\n'

    def rule(self, name):
        for n, e, r in self.rules:
            if n == name:
                return (n, e, r)
        return None


def show(r, prec):
    """prec: 0 alt, 1 choice, 2 concat, 3 postfix"""
    k = r[0]
    if k == 'tok' or k == 'rule':
        return r[1]
    if k == 'alt':
        s = ' | '.join(show(x, 1) for x in r[1])
        return '(%s)' % s if prec > 0 else s
    if k == 'choice':
        s = ' / '.join(show(x, 2) for x in r[1])
        return '(%s)' % s if prec > 1 else s
    if k == 'cat':
        s = ' '.join(show(x, 3) for x in r[1])
        return '(%s)' % s if prec > 2 else s
    if k == 'star':
        return show(r[1], 3) + '*'
    if k == 'plus':
        return show(r[1], 3) + '+'
    if k == 'opt':
        return '[%s]' % show(r[1], 0)
    if k == 'paren':
        return '(%s)' % show(r[1], 0)
    if k == 'pred':
        return '?%s' % r[1]
    if k == 'action':
        return '#%d' % r[1]
    if k == 'assert':
        return '!%d' % r[1]
    if k == 'rename':
        return '@%s' % r[1]
    if k == 'elide':
        return '^'
    if k == 'marker':
        return '<%d' % r[1]
    if k == 'create':
        return '%s>%s' % ('' if r[1] is None else r[1], '' if r[2] is None else r[2])
    if k == 'commit':
        return '~'
    if k == 'return':
        return '&'
    raise ValueError(k)


class Gen:
    def __init__(self, rng, opts=None):
        self.rng = rng
        o = dict(ntok=(5, 16), unique_lead=0.75, nrules=(1, 5), pratt=0.3, choice=0.25, pred=0.15, action=0.2, assertion=0.1,
                 rename=0.2, elide=0.2, marker=0.2, whole_create=0.15, commit=0.4, ret=0.1, parts=0.25,
                 skip=0.6, empty_rule=0.03, depth=3)
        if opts:
            o.update(opts)
        self.o = o

    def p(self, key):
        return self.rng.random() < self.o[key]

    def grammar(self):
        rng = self.rng
        g = G()
        self.g = g
        nt = rng.randint(*self.o['ntok'])
        g.tokens = TOKS[:nt]
        self.pool = list(g.tokens)
        if self.p('skip'):
            g.tokens = g.tokens + ['Ws']
            g.skip = ['Ws']
            g.features.add('skip')
        nr = rng.randint(*self.o['nrules'])
        names = ['s'] + ['r%d' % i for i in range(1, nr)]
        self.names = names
        self.marker_n = 0
        self.num = 0
        self.used_rules = set()
        self.choice_used = set()
        g.start = 's'
        pratt_rules = set()
        for i, nm in enumerate(names):
            self.cur_rule = nm
            self.cur_idx = i
            self.rule_has_choice = nm in self.choice_used
            self.rule_in_choice = nm in self.choice_used
            self.in_choice_alt = self.rule_in_choice
            is_start = i == 0
            if not is_start and self.p('empty_rule'):
                g.rules.append((nm, False, None))
                g.features.add('empty_rule')
                continue
            if not is_start and self.p('pratt') and len(self.pool) >= 4:
                g.rules.append((nm, False, self.pratt(nm)))
                g.features.add('pratt')
                pratt_rules.add(nm)
                continue
            elided = (not is_start) and self.p('elide') and rng.random() < 0.5
            self.cur_elided = elided
            rx = self.regex(self.o['depth'], top=True)
            if elided:
                g.features.add('elided_rule')
            # whole-rule creation `>`: in elided rules, (half as often) in ordinary non-start rules and (a third as often)
            # in the start rule, whose node is opened by parse_rule
            if (elided or (not is_start and rng.random() < 0.5) or (is_start and rng.random() < 0.35)) and self.p('whole_create') and rx[0] == 'cat':
                pos = rng.randint(1, len(rx[1]))
                rx = ('cat', rx[1][:pos] + [('create', None, rng.choice(['w', None] + self.names[1:]))] + rx[1][pos:])
                g.features.add('whole_create')
                if not elided:
                    g.features.add('whole_create_plain')
                if is_start:
                    g.features.add('whole_create_start')
            g.rules.append((nm, elided, rx))
        # make sure every rule is referenced at least once: append references to the start rule
        refd = set()
        for n, e, r in g.rules:
            if r is not None:
                collect_rules(r, refd)
        if self.p('parts') and len(names) > 1:
            cand = [n for n in names[1:]]
            g.parts = rng.sample(cand, rng.randint(1, min(2, len(cand))))
            g.features.add('parts')
            # a part rule that can be empty (the entry point is then legal on an input without any token)
            if rng.random() < 0.4:
                pn = rng.choice(g.parts)
                for k, (n, e, r) in enumerate(g.rules):
                    if n == pn and r is not None and n not in pratt_rules:
                        body = ('paren', r) if r[0] in ('alt', 'choice') else r
                        g.rules[k] = (n, e, (rng.choice(['opt', 'star']), ('paren', body) if body[0] == 'cat' else body))
                        g.features.add('nullable_part')
                        break
        # a part rule is an entry point of its own: half of the time it stays unreferenced, so that
        # the rules it calls are reachable only through it
        free_parts = set(g.parts) if rng.random() < 0.5 else set()
        missing = [n for n in names[1:] if n not in refd and n not in free_parts]
        if missing:
            n0, e0, r0 = g.rules[0]
            extra = [('rule', m) for m in missing]
            if r0[0] == 'cat':
                r0 = ('cat', r0[1] + extra)
            else:
                r0 = ('cat', [('paren', r0)] + extra) if r0[0] in ('alt', 'choice') else ('cat', [r0] + extra)
            g.rules[0] = (n0, e0, r0)
        if g.right:
            g.features.add('right')
        g.bottom_up = rng.random() < 0.25
        return g

    def fresh_tok(self):
        return ('tok', self.rng.choice(self.pool))

    def lead_tok(self):
        # a token that will never be used again (keeps loops and branches LL(1))
        if len(self.pool) > 3 and self.p('unique_lead'):
            t = self.rng.choice(self.pool)
            self.pool.remove(t)
            return ('tok', t)
        return self.fresh_tok()

    def atom(self, depth):
        rng = self.rng
        later = self.names[self.cur_idx + 1:]
        if later and rng.random() < 0.35:
            r = rng.choice(later)
            if self.in_choice_alt:
                self.choice_used.add(r)
            return ('rule', r)
        return self.fresh_tok()

    def deco(self, items):
        """sprinkle node operators / actions / assertions into a concat item list"""
        rng = self.rng
        g = self.g
        out = list(items)
        if self.p('action') and not self.in_choice_alt:
            self.num += 1
            out.insert(rng.randint(0, len(out)), ('action', self.num))
            g.features.add('action')
        if self.p('assertion'):
            self.num += 1
            out.insert(rng.randint(1, len(out)), ('assert', self.num))
            g.features.add('assert')
        if self.p('rename'):
            out.insert(rng.randint(0, len(out)), ('rename', rng.choice(['foo', 'bar'] + self.names[1:] + ['s'])))
            g.features.add('rename')
        if self.cur_idx != 0 and not self.cur_elided and self.p('elide'):
            out.insert(rng.randint(0, len(out)), ('elide',))
            g.features.add('cond_elide')
        if self.p('marker') and len(out) >= 1:
            self.marker_n += 1
            n = self.marker_n
            i = rng.randint(0, len(out) - 1)
            j = rng.randint(i + 1, len(out))
            out = out[:i] + [('marker', n)] + out[i:j] + [('create', n, rng.choice(['foo', 'bar', 'baz', None] + self.names[1:]))] + out[j:]
            g.features.add('marker')
        if self.cur_idx != 0 and self.p('ret') and len(out) >= 1:
            out.insert(rng.randint(1, len(out)), ('return',))
            g.features.add('return')
        return out

    def seq(self, depth, lead=None):
        rng = self.rng
        n = rng.randint(1, 3)
        items = []
        if lead is not None:
            items.append(lead)
        for _ in range(n):
            items.append(self.item(depth))
        items = self.deco(items)
        return ('cat', items) if len(items) > 1 else items[0]

    def item(self, depth):
        rng = self.rng
        if depth <= 0:
            return self.atom(depth)
        x = rng.random()
        if x < 0.45:
            return self.atom(depth)
        if x < 0.6:
            return ('opt', self.seq(depth - 1, self.lead_tok()))
        if x < 0.8 and x >= 0.6 and self.p('choice') and not self.in_choice_alt and not self.rule_has_choice and rng.random() < 0.2:
            # a repetition whose whole body is an ordered choice: an iteration that abandons its first
            # alternative must still consume something or leave the loop
            self.g.features.add('loop_over_choice')
            return ('star' if x < 0.72 else 'plus', ('paren', self.choice(depth - 1)))
        if x < 0.72:
            return ('star', self.paren_if(self.seq(depth - 1, self.lead_tok())))
        if x < 0.8:
            return ('plus', self.paren_if(self.seq(depth - 1, self.lead_tok())))
        if x < 0.9:
            return ('paren', self.alt(depth - 1))
        return ('paren', self.seq(depth - 1))

    def paren_if(self, r):
        return ('paren', r) if r[0] in ('cat', 'alt', 'choice') else r

    def alt(self, depth):
        rng = self.rng
        if self.p('choice') and not self.in_choice_alt and not self.rule_has_choice:
            return self.choice(depth)
        n = rng.randint(2, 3)
        toks = []
        for _ in range(n):
            t = self.lead_tok()[1]
            if t not in toks:
                toks.append(t)
        branches = []
        for i, t in enumerate(toks):
            lead = ('tok', t)
            b = self.seq(depth, lead)
            if self.p('pred'):
                self.num += 1
                pr = ('pred', 't' if self.o.get('pred_true_only') else rng.choice(['t', self.num]))
                b = ('cat', [pr] + (b[1] if b[0] == 'cat' else [b]))
                self.g.features.add('pred')
            branches.append(b)
        return ('alt', branches)

    def choice(self, depth):
        rng = self.rng
        self.g.features.add('choice')
        self.rule_has_choice = True
        n = rng.randint(2, 3)
        shared = self.fresh_tok()
        alts = []
        for i in range(n):
            last = i == n - 1
            self.in_choice_alt = not last
            if last and rng.random() < 0.2:
                # a final alternative that can match the empty string (taken through its follow set)
                items = [('opt', self.fresh_tok())]
                self.g.features.add('choice_nullable_last')
            else:
                items = [shared if rng.random() < 0.7 else self.fresh_tok()]
            for _ in range(rng.randint(0, 2)):
                items.append(self.item(0) if rng.random() < 0.7 else self.item(1))
            if not last and self.p('commit'):
                items.insert(rng.randint(1, len(items)), ('commit',))
                self.g.features.add('commit')
            items = self.deco(items)
            alts.append(('cat', items) if len(items) > 1 else items[0])
        self.in_choice_alt = self.rule_in_choice
        ch = ('choice', alts)
        # a rule used inside the alternatives is often used again right after the choice, in an
        # ordinary context (rules shared between choice alternatives and ordinary contexts)
        used = set()
        for a in alts[:-1]:
            collect_rules(a, used)
        used = [u for u in used if u in self.names[self.cur_idx + 1:]]
        if used and rng.random() < 0.6:
            return ('cat', [('paren', ch), ('rule', rng.choice(sorted(used))), self.fresh_tok()])
        return ch

    def regex(self, depth, top=False):
        rng = self.rng
        x = rng.random()
        if x < 0.35:
            return self.alt(depth)
        return self.seq(depth)

    def pratt(self, nm):
        rng = self.rng
        g = self.g
        pool = list(self.pool)
        rng.shuffle(pool)
        branches = []
        nop = rng.randint(1, 4)
        used = []
        # operator profiles: mixed, or no infix operator at all (only postfix here, prefix below)
        profile = rng.choice([['infix', 'infix', 'infix2', 'postfix', 'mixfix']] * 4 + [['postfix']] + [['lone']])
        only_unary = profile == ['postfix']
        # 'lone': exactly one binary branch (often right associative) among postfix branches, usually no prefix branch
        lone = profile == ['lone']
        lone_kinds = []
        if lone:
            nop = rng.randint(2, 3)
            lone_kinds = ['postfix'] * nop
            lone_kinds[rng.randint(0, nop - 1) if rng.random() < 0.4 else 0] = 'infix'
            g.features.add('pratt_lone_binary')
        for i in range(nop):
            if len(pool) < 3:
                break
            kind = lone_kinds[i] if lone else rng.choice(profile)
            if kind == 'infix':
                t = pool.pop()
                used.append(t)
                b = ('cat', [('rule', nm), ('tok', t), ('rule', nm)])
                if rng.random() < (0.7 if lone else 0.5):
                    g.right.append(t)
            elif kind == 'infix2':
                t1, t2 = pool.pop(), pool.pop()
                used += [t1, t2]
                b = ('cat', [('rule', nm), ('paren', ('alt', [('tok', t1), ('tok', t2)])), ('rule', nm)])
                r = rng.random()
                if r < 0.45:
                    g.right += [t1, t2]
            elif kind == 'postfix':
                t = pool.pop()
                used.append(t)
                b = ('cat', [('rule', nm), ('tok', t)])
            else:
                t1, t2 = pool.pop(), pool.pop()
                used += [t1, t2]
                b = ('cat', [('rule', nm), ('tok', t1), ('rule', nm), ('tok', t2), ('rule', nm)])
            if self.p('rename') and rng.random() < 0.5:
                b = ('cat', b[1] + [('rename', rng.choice(['bin', 'foo'] + self.names[1:]))])
                g.features.add('rename')
            # actions and assertions inside operator branches (behind the operator token)
            if self.p('assertion') and rng.random() < 0.6:
                self.num += 1
                items = list(b[1])
                items.insert(rng.randint(2, len(items)), ('assert', self.num))
                b = ('cat', items)
                g.features.add('assert')
                g.features.add('pratt_deco')
            if self.p('action') and rng.random() < 0.6 and not self.in_choice_alt and nm not in self.choice_used:
                self.num += 1
                items = list(b[1])
                # also between the left operand and the operator (the operator is found behind it)
                items.insert(rng.randint(1, len(items)), ('action', self.num))
                b = ('cat', items)
                g.features.add('action')
                g.features.add('pratt_deco')
            branches.append(b)
        # prefix (interleaved with the other branches when there is no infix operator)
        npre = rng.randint(1, 2) if only_unary else (1 if rng.random() < (0.2 if lone else 0.5) else 0)
        for _ in range(npre):
            if pool:
                t = pool.pop()
                branches.insert(rng.randint(0, len(branches)) if (only_unary or rng.random() < 0.5) else len(branches), ('cat', [('tok', t), ('rule', nm)]))
        # parenthesised
        if len(pool) >= 2 and rng.random() < 0.5:
            t1, t2 = pool.pop(), pool.pop()
            branches.append(('cat', [('tok', t1), ('rule', nm), ('tok', t2)]))
        # atoms
        na = rng.randint(1, 2)
        for _ in range(na):
            if not pool:
                break
            t = pool.pop()
            later = self.names[self.cur_idx + 1:]
            if later and rng.random() < 0.3:
                rr = rng.choice(later)
                if nm in self.choice_used:
                    self.choice_used.add(rr)
                branches.append(('cat', [('tok', t), ('rule', rr)]))
            else:
                branches.append(('tok', t))
        if len(branches) < 2 or not any(b[0] == 'tok' or (b[0] == 'cat' and b[1][0][0] == 'tok' and all(x != ('rule', nm) for x in b[1])) for b in branches):
            branches.append(('tok', self.rng.choice(self.pool)))
        # the tokens used as operators must not be reused as followers elsewhere: remove from pool
        self.pool = [t for t in self.pool if t not in used] or self.pool
        return ('alt', branches)


def collect_rules(r, acc):
    k = r[0]
    if k == 'rule':
        acc.add(r[1])
    elif k in ('alt', 'choice', 'cat'):
        for x in r[1]:
            collect_rules(x, acc)
    elif k in ('star', 'plus', 'opt', 'paren'):
        collect_rules(r[1], acc)


# ---------------------------------------------------------------- sentences

class Deriver:
    def __init__(self, g, rng, maxdepth=8):
        self.g = g
        self.rng = rng
        self.maxdepth = maxdepth
        self.minlen = {}
        self._compute_min()

    def _compute_min(self):
        INF = 10 ** 6
        ml = {n: INF for n, e, r in self.g.rules}
        changed = True
        while changed:
            changed = False
            for n, e, r in self.g.rules:
                v = 0 if r is None else self._min(r, ml)
                if v < ml[n]:
                    ml[n] = v
                    changed = True
        self.minlen = ml

    def _min(self, r, ml):
        k = r[0]
        if k == 'tok':
            return 1
        if k == 'rule':
            return ml.get(r[1], 10 ** 6)
        if k in ('alt', 'choice'):
            return min(self._min(x, ml) for x in r[1])
        if k == 'cat':
            return min(10 ** 6, sum(self._min(x, ml) for x in r[1]))
        if k in ('star', 'opt'):
            return 0
        if k in ('plus', 'paren'):
            return self._min(r[1], ml)
        return 0

    def derive(self, name):
        rule = self.g.rule(name)
        if rule is None or rule[2] is None:
            return []
        return self.d(rule[2], 0)

    def d(self, r, depth):
        rng = self.rng
        k = r[0]
        if depth > 80:
            return []
        if k == 'tok':
            return [r[1]]
        if k == 'rule':
            rule = self.g.rule(r[1])
            if rule is None or rule[2] is None:
                return []
            return self.d(rule[2], depth + 1)
        if k in ('alt', 'choice'):
            opts = r[1]
            if depth >= self.maxdepth:
                m = min(self._min(x, self.minlen) for x in opts)
                opts = [x for x in opts if self._min(x, self.minlen) == m]
            return self.d(rng.choice(opts), depth + 1)
        if k == 'cat':
            out = []
            for x in r[1]:
                out += self.d(x, depth + 1)
            return out
        if k == 'star':
            n = 0 if depth >= self.maxdepth else rng.choice([0, 0, 1, 1, 2, 3])
            out = []
            for _ in range(n):
                out += self.d(r[1], depth + 1)
            return out
        if k == 'plus':
            n = 1 if depth >= self.maxdepth else rng.choice([1, 1, 2, 3])
            out = []
            for _ in range(n):
                out += self.d(r[1], depth + 1)
            return out
        if k == 'opt':
            if depth >= self.maxdepth or rng.random() < 0.5:
                return []
            return self.d(r[1], depth + 1)
        if k == 'paren':
            return self.d(r[1], depth + 1)
        return []


def mutate(rng, sent, alphabet):
    s = list(sent)
    op = rng.choice(['del', 'ins', 'rep', 'swap', 'trunc', 'dup'])
    if not s:
        return [rng.choice(alphabet)]
    i = rng.randrange(len(s))
    if op == 'del':
        del s[i]
    elif op == 'ins':
        s.insert(i, rng.choice(alphabet))
    elif op == 'rep':
        s[i] = rng.choice(alphabet)
    elif op == 'swap' and len(s) > 1:
        j = rng.randrange(len(s))
        s[i], s[j] = s[j], s[i]
    elif op == 'trunc':
        s = s[:i]
    else:
        s.insert(i, s[i])
    return s


def add_trivia(rng, sent, trivia, p=0.3):
    out = []
    for gap in range(len(sent) + 1):
        while rng.random() < p:
            out.append(rng.choice(trivia))
        if gap < len(sent):
            out.append(sent[gap])
    return out


def inputs_for(g, rng, entry, n, maxlen=30, trivia=True):
    """a mixed list of token-name lists: sentences, mutants, random, truncations, runs, empty"""
    dv = Deriver(g, rng)
    alphabet = [t for t in g.tokens if t not in g.skip]
    triv = (list(g.skip) + ['Error']) if trivia else []
    out = [[]]
    sents = []
    for _ in range(max(2, n // 3)):
        s = dv.derive(entry)
        if len(s) <= maxlen:
            sents.append(s)
    out += sents
    while len(out) < n:
        x = rng.random()
        if sents and x < 0.45:
            s = rng.choice(sents)
            for _ in range(rng.choice([1, 1, 1, 2, 3])):
                s = mutate(rng, s, alphabet)
            out.append(s)
        elif sents and x < 0.6:
            s = rng.choice(sents)
            out.append(s[:rng.randint(0, len(s))])
        elif x < 0.9:
            out.append([rng.choice(alphabet) for _ in range(rng.randint(1, 8))])
        else:
            out.append([rng.choice(alphabet)] * rng.randint(2, 12))
    res = []
    for s in out[:n]:
        if triv and rng.random() < 0.5:
            s = add_trivia(rng, s, triv)
        res.append(s)
    return res


if __name__ == '__main__':
    import sys
    rng = random.Random(int(sys.argv[1]) if len(sys.argv) > 1 else 1)
    g = Gen(rng).grammar()
    print(g.text())
    print(sorted(g.features))
    for s in inputs_for(g, rng, g.start, 6):
        print(' '.join(s))


# ---------------------------------------------------------------- unconstrained small grammars (analysis checks)

def gen_small(rng, max_rules=4, max_toks=4, depth=3, parts=True):
    """arbitrary references (recursion, hidden left recursion), nullable constructs; mostly NOT LL(1)"""
    g = G()
    nt = rng.randint(1, max_toks)
    g.tokens = TOKS[:nt]
    nr = rng.randint(1, max_rules)
    names = ['s'] + ['r%d' % i for i in range(1, nr)]
    g.start = 's'
    num = [0]

    def rx(d, rule_idx):
        x = rng.random()
        if d <= 0 or x < 0.3:
            y = rng.random()
            if y < 0.55:
                return ('tok', rng.choice(g.tokens))
            if y < 0.93:
                cands = names[1:] if len(names) > 1 else []
                if cands:
                    return ('rule', rng.choice(cands))
                return ('tok', rng.choice(g.tokens))
            num[0] += 1
            return rng.choice([('pred', 't'), ('pred', num[0]), ('action', num[0]), ('assert', num[0]), ('commit',), ('return',)])
        if x < 0.55:
            return ('cat', [rx(d - 1, rule_idx) for _ in range(rng.randint(2, 3))])
        if x < 0.7:
            return ('alt', [rx(d - 1, rule_idx) for _ in range(rng.randint(2, 3))])
        if x < 0.75:
            return ('choice', [rx(d - 1, rule_idx) for _ in range(2)])
        if x < 0.83:
            return ('opt', rx(d - 1, rule_idx))
        if x < 0.9:
            y = rx(d - 1, rule_idx)
            return ('star', ('paren', y) if y[0] in ('cat', 'alt', 'choice') else y)
        if x < 0.95:
            y = rx(d - 1, rule_idx)
            return ('plus', ('paren', y) if y[0] in ('cat', 'alt', 'choice') else y)
        return ('paren', rx(d - 1, rule_idx))
    for i, nm in enumerate(names):
        body = rx(depth, i)
        if i > 0 and rng.random() < 0.04:
            body = None
        g.rules.append((nm, False, body))
    # self references are allowed in non-start rules only (the start rule must not be referenced)
    if parts and len(names) > 1 and rng.random() < 0.3:
        g.parts = rng.sample(names[1:], 1)
    return g
