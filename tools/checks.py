"""Per-property checks.  See DESIGN.md section 4 for the protocol."""
import collections
import glob
import json
import os
import random
import shutil
import sys
import tempfile
import time

import gen_grammar
import k1 as k1mod
import k3
import known
import lv


def main(pid, args):
    fn = globals().get('check_' + pid)
    if fn is None and pid in ('C12', 'C13', 'C17', 'C18'):
        import checks_front
        fn = getattr(checks_front, 'check_' + pid)
    if fn is None and pid == 'C20':
        import checks_lsp
        fn = checks_lsp.check_C20
    if fn is None:
        print('no check for ' + pid)
        sys.exit(2)
    work = tempfile.mkdtemp(prefix='lv_%s_' % pid, dir=os.environ.get('TMPDIR', '/tmp'))
    try:
        fn(work, args)
    finally:
        shutil.rmtree(work, ignore_errors=True)


# ------------------------------------------------------------------ common steps

def proof_step(ck, pid):
    """steps 1-2: build the development, audit it, re-check the property file"""
    ok, msg = lv.build_model()
    st = {'build_ok': ok, 'build_msg': msg, 'theorems': [], 'props_ok': False, 'audit': []}
    if not ok:
        lv.log('proof build FAILED:\n' + msg)
        return st
    st['audit'] = lv.audit_sources()
    okp, thms, rep = lv.check_props(pid)
    st['props_ok'] = okp
    st['theorems'] = thms
    st['props_report'] = rep if not okp else ''
    if not okp:
        lv.log('property file check failed: ' + rep[-1500:])
    return st


def proof_broken(st):
    return (not st['build_ok']) or (not st['props_ok']) or bool(st['audit'])


def proof_summary(st):
    if not st['build_ok']:
        return 'Coq development does not build: ' + st['build_msg'][-800:]
    if st['audit']:
        return 'forbidden declarations: ' + '; '.join(st['audit'][:5])
    if not st['props_ok']:
        return 'property file does not check: ' + st.get('props_report', '')[-800:]
    return 'ok'


def gen_items(ck, work, n_wanted, opts=None, max_rounds=8, need=None, batch=None):
    """generate random grammars until n_wanted are accepted and compile; returns (items_ok, all_items)"""
    all_items = []
    good = []
    rounds = 0
    while len(good) < n_wanted and rounds < max_rounds:
        rounds += 1
        nb = batch or max(2 * n_wanted, 16)
        gs = [gen_grammar.Gen(ck.rng, opts).grammar() for _ in range(nb)]
        if need:
            gs = [g for g in gs if need(g)] or gs
        sub = os.path.join(work, 'r%d' % rounds)
        os.makedirs(sub, exist_ok=True)
        items = k3.prepare(sub, gs)
        acc = [it for it in items if it['res'].get('wrote')]
        acc = acc[:max(0, n_wanted - len(good))]
        k3.build_all(acc)
        all_items += items
        good += [it for it in acc if 'pb' in it and it['pb'].rustc_ok]
    return good, all_items


def corpus_items(work, pid):
    """minimised failures and hand-written regression grammars: corpus/*.json = {grammar, cases:[[entry,[toks],bits]], properties:[…]}"""
    files = sorted(glob.glob(os.path.join(lv.VERIF, 'corpus', '*.json')))
    texts, metas = [], []
    for f in files:
        try:
            j = json.load(open(f))
        except Exception:
            continue
        if 'grammar' not in j:
            continue
        if j.get('properties') and pid not in j['properties']:
            continue
        texts.append(j['grammar'])
        metas.append(j)
    if not texts:
        return []
    sub = os.path.join(work, 'corpus')
    os.makedirs(sub, exist_ok=True)
    items = k3.prepare(sub, [None] * len(texts), texts)
    for it, m in zip(items, metas):
        it['corpus'] = m
    acc = [it for it in items if it['res'].get('wrote')]
    k3.build_all(acc)
    return items


def std_cases(ck, it, n, maxlen=30):
    """inputs for one grammar item"""
    if it.get('corpus') is not None:
        cs = [(c[0], c[1], c[2] if len(c) > 2 else '') for c in it['corpus'].get('cases', [])]
        return cs
    g = it['g']
    cases = []
    entries = [g.start] + list(g.parts)
    for e in entries:
        k = n if e == g.start else max(4, n // 4)
        for toks in gen_grammar.inputs_for(g, ck.rng, e, k, maxlen=maxlen):
            bits = ''.join(ck.rng.choice('01') for _ in range(ck.rng.randint(0, 7)))
            cases.append((e, toks, bits))
    return cases


def report_build_problems(ck, items, pid):
    """translator failures / parsers that do not compile: a broken tie"""
    probs = []
    for it in items:
        if 'terror' in it:
            probs.append(('translator', it['terror'], it['text']))
        elif 'error' in it:
            probs.append(('build', it['error'], it['text']))
        elif 'pb' in it and not it['pb'].rustc_ok and pid == 'C11':
            probs.append(('rustc', it['pb'].rustc_err[-600:], it['text']))
    return probs


# ------------------------------------------------------------------ C01 / C02 (tree properties)

def tree_check(work, pid, oracle, level_text, gen_opts=None, need=None, cases_fn=None, with_k1=True, n_quick=(40, 40), n_thorough=(600, 120), maxlen=30, prefilter=None):
    ck = lv.Check(pid, 'proof')
    quick = ck.tier == 'quick'
    st = proof_step(ck, pid)
    lv.build_impl(bins=False)

    # ---- K1: builder histories
    hs = []
    k1dis, k1stats = [], {'valid_complete': 0}
    if with_k1:
        pbk = k1mod.k1_driver(work)
        nh = 2000 if quick else 50000
        hs = [k1mod.gen_history(ck.rng) for _ in range(nh)]
        if not quick:
            hs += k1mod.enumerate_histories(5)
        corpus_h = os.path.join(lv.VERIF, 'corpus', 'k1_histories.txt')
        if os.path.exists(corpus_h):
            hs = [l.strip() for l in open(corpus_h) if l.strip() and not l.startswith('#')] + hs
        bi, bm = k1mod.run_k1(pbk, hs)
        k1dis, k1stats = k1mod.compare_k1(hs, bi, bm)

    # ---- K3: generated parsers
    n_g, n_in = n_quick if quick else n_thorough
    citems = corpus_items(work, pid)
    good, all_items = gen_items(ck, work, n_g, opts=gen_opts, need=need)
    run_items = [it for it in citems if 'pb' in it and it['pb'].rustc_ok] + good
    if prefilter:
        run_items = [it for it in run_items if prefilter(it)]
    k3.run_all(run_items, (lambda it: cases_fn(ck, it, n_in)) if cases_fn else (lambda it: std_cases(ck, it, n_in, maxlen=maxlen)))
    probs = report_build_problems(ck, all_items + citems, pid)

    kf = known.Known(pid)
    evals = 0
    distinct = set()
    disagreements = []
    failures = []
    feat = collections.Counter()
    sizes = collections.Counter()
    kinds = collections.Counter()
    gv_false = 0
    for it in run_items:
        if it.get('g') is not None:
            feat.update(it['g'].features)
        for (case, impl, model, cmp_) in it.get('cases', []):
            evals += 1
            entry, toks, bits = case
            sizes[min(len(toks) // 5 * 5, 40)] += 1
            kinds[impl['r'] + ('/diag' if impl.get('diags') else '')] += 1
            if impl['r'] == 'ok' and len(impl['nodes']) > 2:
                distinct.add((it['text'], entry, tuple(toks), bits))
            if model.get('gv') is False:
                gv_false += 1
            if cmp_ is not None:
                disagreements.append({'grammar': it['text'], 'entry': entry, 'tokens': toks, 'bits': bits, 'what': cmp_})
            o = oracle(it, case, impl, model)
            if o is not None:
                rec = {'grammar': it['text'], 'entry': entry, 'tokens': toks, 'bits': bits, 'what': o,
                       'model_ghost_valid': model.get('gv'), 'impl_nodes': impl.get('nodes')}
                k = kf.match(it, case, impl, model)
                if k is not None:
                    kf.hit(k, rec)
                else:
                    failures.append(rec)
            elif model.get('gv') is False and impl['r'] == 'ok' and kf.match(it, case, impl, model) is None:
                # the model's discipline is violated but the direct oracle sees nothing: not a violation by
                # itself; recorded in the evidence
                pass

    # ---- known findings: re-run every recorded witness
    kf.rerun_witnesses(work, oracle, ck)

    # ---- verdict
    shown = 0
    for f in failures:
        if shown < 3:
            ck.violation(f['what'], f)
            shown += 1
    if not failures:
        broken = []
        if proof_broken(st):
            broken.append('proof: ' + proof_summary(st))
        if k1dis:
            broken.append('K1 correspondence (builder model vs CstData): %d histories disagree; first: %s' % (len(k1dis), json.dumps(k1dis[0])))
        if disagreements:
            broken.append('K3 correspondence (Exec.v on the translated program vs the compiled parser): %d cases disagree; first: %s' % (len(disagreements), json.dumps(disagreements[0])[:1500]))
        if probs:
            broken.append('tie: %d emitted parsers could not be translated/compiled; first: %s: %s' % (len(probs), probs[0][0], probs[0][1]))
        if broken:
            ck.violation('; '.join(broken)[:3000], {'broken': broken, 'k1': k1dis[:3], 'k3': disagreements[:3],
                                                   'build_problems': [(a, b, c) for a, b, c in probs[:3]]}, no_input=True)
    ck.known = kf.lines()
    samples = []
    for it in run_items[:3]:
        for (case, impl, model, cmp_) in it.get('cases', [])[:2]:
            samples.append({'grammar': it['text'], 'entry': case[0], 'tokens': case[1], 'bits': case[2],
                            'impl_result': impl['r'], 'nodes': impl.get('nodes'), 'diags': impl.get('diags')})
    if hs:
        samples.append({'k1_history': hs[min(5, len(hs) - 1)]})
    nthm = len(st['theorems'])
    obligations = nthm + 3
    discharged = (nthm if not proof_broken(st) else 0) + (0 if k1dis else 1) + (0 if disagreements else 1) + (0 if probs else 1)
    ck.cov = {
        'obligations': obligations, 'discharged': discharged,
        'checker_cmd': 'make -C coq (coq_makefile, full .vo) ; coqc -Q . LV Props/%s.v (Print Assumptions parsed) ; source audit grep' % pid,
        'trusted_base': lv.TRUSTED_BASE,
        'theorems': st['theorems'],
        'explanation': level_text,
        'programs': len(run_items), 'evaluations': evals + len(hs), 'distinct_nontrivial': len(distinct) + k1stats['valid_complete'],
        'rule': 'K3: random mostly-LL(1) grammars accepted by /repo (features below) x sentences, mutants, truncations, random strings, runs, with skipped/Error tokens; non-trivial = parse returned and tree has >2 nodes, distinct by (grammar, entry, tokens, oracle bits). K1: random mostly-valid builder histories; non-trivial = valid history closed with close_root whose reference tree flattens to the concrete vector',
        'disagreements_checked': evals + len(hs),
        'k1': k1stats, 'k1_histories': len(hs), 'k1_disagreements': len(k1dis),
        'k3_disagreements': len(disagreements), 'translator_or_build_problems': len(probs),
        'parsers_not_compiling_(C11_business)': len([1 for it in all_items + citems if 'pb' in it and not it['pb'].rustc_ok]),
        'grammars_generated': len(all_items), 'grammars_accepted_and_run': len(run_items),
        'feature_histogram': dict(feat), 'input_size_histogram': {str(k): v for k, v in sorted(sizes.items())},
        'result_kinds': dict(kinds), 'model_ghost_invalid_cases': gv_false,
        'known_finding_hits': kf.hits_summary(),
        'samples': samples,
    }
    ck.assumptions = ['see trusted_base', 'theorems are about coq/Model; the tie is K1 (op histories) + translator + K3 (whole parses)']
    ck.finish()


def check_C01(work, args):
    tree_check(work, 'C01', lambda it, case, impl, model: k3.oracle_c01(it['pb'], case[1], impl),
               'lossless: theorems over Cst.v/ABuild.v/Runtime.v/Exec.v (see Props/C01.v) + K1/K3 correspondence + direct walk oracle')


def check_C02(work, args):
    tree_check(work, 'C02', lambda it, case, impl, model: k3.oracle_c02(it['pb'], case[1], impl),
               'well-formed tree: refinement of the abstract builder for all valid histories (Props/C02.v) + K1/K3 + direct structural oracle')


# ------------------------------------------------------------------ C09 / C10 / C14 (analysis properties)

def repo_grammar_texts():
    out = []
    for pat in ('tests/frontend/*.llw', 'examples/*/src/*.llw', 'src/frontend/*.llw'):
        for f in sorted(glob.glob(os.path.join(lv.REPO, pat))):
            try:
                out.append((os.path.relpath(f, lv.REPO), open(f).read()))
            except Exception:
                pass
    return out


def analysis_inputs(ck, work, n_small, n_gen):
    """list of (label, text): corpus, repo grammars, random small unconstrained, random mostly-LL(1)"""
    texts = []
    for f in sorted(glob.glob(os.path.join(lv.VERIF, 'corpus', 'analysis_*.llw'))):
        texts.append(('corpus:' + os.path.basename(f), open(f).read()))
    texts += [('repo:' + n, t) for n, t in repo_grammar_texts()]
    for i in range(n_small):
        texts.append(('small', gen_grammar.gen_small(ck.rng).text()))
    for i in range(n_gen):
        texts.append(('gen', gen_grammar.Gen(ck.rng, dict(unique_lead=ck.rng.choice([0.0, 0.4, 0.75]))).grammar().text()))
    paths = []
    for i, (lab, t) in enumerate(texts):
        p = os.path.join(work, 'a%d.llw' % i)
        open(p, 'w').write(t)
        paths.append(p)
    return texts, paths


def analysis_check(work, pid, level_text):
    import k2
    import textbook
    ck = lv.Check(pid, 'proof')
    quick = ck.tier == 'quick'
    st = proof_step(ck, pid)
    lv.build_impl(bins=False)
    texts, paths = analysis_inputs(ck, work, 2500 if quick else 40000, 400 if quick else 4000)
    if not quick:
        import enum_small
        for t in enum_small.enumerate_grammars():
            p = os.path.join(work, 'e%d.llw' % len(paths))
            open(p, 'w').write(t)
            texts.append(('exhaustive', t))
            paths.append(p)
    res = lv.harness_sema(paths)
    kinds = collections.Counter()
    failures = []
    k2_todo = []
    evals = 0
    distinct = set()
    samples = []
    for (lab, text), r in zip(texts, res):
        src = lab.split(':')[0]
        if r.get('panic'):
            kinds['panic'] += 1
            if pid == 'C09':
                failures.append({'grammar': text, 'what': 'semantic analysis panicked'})
            continue
        d = r.get('dump')
        if not d or not d['sema']['sets']:
            kinds[src + '/no-sets(name resolution or syntax errors)'] += 1
            continue
        accepted = r['accepted']
        try:
            if k2.count_nodes(d) <= k2.MAX_NODES:
                sx, ids = k2.grammar_sexp(d)
                k2_todo.append((text, r, sx, ids))
            else:
                kinds['too-big-for-K2'] += 1
        except k2.Unresolved:
            pass
        g = textbook.Grammar(d)
        if not g.is_reduced():
            kinds[src + '/not-reduced'] += 1
            continue
        g.analyse()
        evals += 1
        kinds[src + ('/accepted' if accepted else '/rejected')] += 1
        codes = [x['code'] for x in r['diags']]
        if any(c in ('E011', 'E012', 'E013', 'E014') for c in codes) or len(d['rules']) > 1:
            distinct.add(text)
        if len(samples) < 3 and src != 'repo':
            samples.append({'grammar': text, 'accepted': accepted, 'codes': codes})
        if pid == 'C09':
            df = textbook.compare_sets(d, g)
            if df:
                failures.append({'grammar': text, 'what': 'set of node %d: %s is %s but the textbook set is %s' % df[0], 'diffs': df[:5]})
        elif pid == 'C10':
            want = textbook.expected_conflicts(g)
            got = sorted((x['code'], tuple((l['start'], l['end']) for l in x['labels'] if l['primary'])[0])
                         for x in r['diags'] if x['code'] in ('E011', 'E012', 'E013', 'E014', 'E015'))
            if want != got:
                failures.append({'grammar': text, 'what': 'conflict verdicts differ: reported %s, definition gives %s' % (got[:5], want[:5])})
        elif pid == 'C14':
            if not accepted:
                continue
            rules_by_id = {x['id']: x['name'] for x in d['rules']}
            used = [rules_by_id[u] for u in d['sema']['used'] if u in rules_by_id and u not in d['sema']['parts'] or
                    (u in rules_by_id and u in d['sema']['parts'] and False)]
            # `used` as dumped already contains the parts RecoverySetGenerator marked; recompute usage independently
            used = independent_usage(g)
            want = textbook.recovery_expected(g, used)
            sets = d['sema']['sets']
            eofs = {'EOF'} | {'EOF' + textbook.pascal(p) for p in g.parts if g.rules[p]['regex'] is not None}
            for nid, w in want.items():
                got = set(sets.get(str(nid), {}).get('recovery', []))
                if got != w:
                    failures.append({'grammar': text, 'what': 'recovery set of node %d is %s, dominator-follow definition gives %s' % (nid, sorted(got), sorted(w))})
                    break
                fol = set(sets.get(str(nid), {}).get('follow', []))
                if not eofs <= (fol | got):
                    failures.append({'grammar': text, 'what': 'loop %d: end-of-input token(s) %s neither in follow nor in recovery' % (nid, sorted(eofs - fol - got))})
                    break
    # ---- K2: model vs implementation
    k2dis = []
    k2_cap = 500 if quick else 8000
    if len(k2_todo) > k2_cap:
        # keep corpus/repo grammars (first in the list) and a random sample of the rest
        head = k2_todo[:60]
        k2_todo = head + ck.rng.sample(k2_todo[60:], k2_cap - len(head))
    mres = k2.run_model([x[2] for x in k2_todo]) if k2_todo else []
    for (text, r, sx, ids), m in zip(k2_todo, mres):
        if m['r'] != 'ok':
            k2dis.append({'grammar': text, 'what': 'model result ' + m['r']})
            continue
        df = k2.compare(r['dump'], r['diags'], m, ids)
        if df:
            k2dis.append({'grammar': text, 'what': df[0], 'all': df[:4]})
    for f in failures[:3]:
        ck.violation(f['what'], f)
    if not failures:
        broken = []
        if proof_broken(st):
            broken.append('proof: ' + proof_summary(st))
        if k2dis:
            broken.append('K2 correspondence (Sema.v vs SemanticPass): %d grammars disagree; first: %s' % (len(k2dis), json.dumps(k2dis[0])[:1500]))
        if broken:
            ck.violation('; '.join(broken)[:3000], {'broken': broken, 'k2': k2dis[:3]}, no_input=True)
    nthm = len(st['theorems'])
    ck.cov = {
        'obligations': nthm + 1, 'discharged': (nthm if not proof_broken(st) else 0) + (0 if k2dis else 1),
        'checker_cmd': 'make -C coq ; coqc -Q . LV Props/%s.v (Print Assumptions parsed) ; source audit grep' % pid,
        'trusted_base': lv.TRUSTED_BASE, 'theorems': st['theorems'], 'explanation': level_text,
        'programs': len(k2_todo), 'disagreements_checked': len(k2_todo), 'k2_disagreements': len(k2dis),
        'evaluations': evals, 'distinct_nontrivial': len(distinct),
        'rule': 'grammars: repo fixtures/examples, random unconstrained small grammars (recursion, hidden left recursion, nullable constructs, parts), random mostly-LL(1) grammars%s; evaluated = reduced grammars that passed name resolution; non-trivial = more than one rule or at least one LL(1) conflict, distinct by text' % ('' if quick else ', exhaustive small space'),
        'input_kinds': dict(kinds), 'samples': samples, 'exhaustive': False,
    }
    ck.assumptions = ['reference sets/verdicts/dominators computed by tools/textbook.py on a BNF built from the typed view, names re-bound by name']
    ck.finish()


def independent_usage(g):
    used = set()
    todo = [g.start]
    while todo:
        n = todo.pop()
        if n in used or n not in g.rules:
            continue
        used.add(n)
        b = g.rules[n]['regex']

        def visit(x):
            if x['k'] == 'name' and x.get('value') and x['value'][0].islower():
                todo.append(x['value'])
            for c in (x.get('ops') or []):
                visit(c)
            if x.get('op') is not None:
                visit(x['op'])
        if b is not None:
            visit(b)
    return used


def check_C09(work, args):
    analysis_check(work, 'C09', 'first/follow/predict: Coq model of LL1Validator (Sema.v) tied by K2; reference = textbook sets on an independent BNF')


def check_C10(work, args):
    analysis_check(work, 'C10', 'LL(1) conflicts: Coq model of LL1Validator::check tied by K2; reference verdicts from the definition with textbook sets')


def check_C14(work, args):
    analysis_check(work, 'C14', 'recovery sets: Coq model of RecoverySetGenerator tied by K2; reference = brute-force dominators on an independent graph')


# ------------------------------------------------------------------ C03 - C08, C16 (parser behaviour)
import oracles  # noqa: E402


def cases_c03(ck, it, n):
    cs = std_cases(ck, it, n, maxlen=60)
    if it.get('corpus') is not None:
        return cs
    g = it['g']
    dv = gen_grammar.Deriver(g, ck.rng)
    alphabet = [t for t in g.tokens if t not in g.skip]
    s = dv.derive(g.start)[:40]
    for i in range(len(s) + 1):
        cs.append((g.start, s[:i], '1'))
    for t in ck.rng.sample(alphabet, min(3, len(alphabet))):
        cs.append((g.start, [t] * 200, '0'))
    cs.append((g.start, [ck.rng.choice(alphabet + ['Error'] + list(g.skip)) for _ in range(150)], '01'))
    return cs


def check_C03(work, args):
    tree_check(work, 'C03', oracles.oracle_c03,
               'totality: K3 correspondence (Exec.v on the translated program vs the compiled parser, incl. fuel exhaustion vs watchdog) + catch_unwind/watchdog oracle',
               cases_fn=cases_c03, with_k1=False, prefilter=oracles.productive, n_quick=(40, 40), n_thorough=(500, 120))


def check_C04(work, args):
    tree_check(work, 'C04', oracles.oracle_c04,
               'no diagnostic iff sentence: K3 correspondence + Earley membership / prioritised reference interpreter',
               gen_opts=dict(pred_true_only=True, assertion=0.0), with_k1=False, maxlen=16,
               prefilter=lambda it: not ({'pred_user', 'assert'} & oracles.grammar_features(it['res']['dump'])))


def check_C05(work, args):
    import known as kn
    tree_check(work, 'C05', oracles.oracle_c05,
               'derivation tree with node operators: K3 correspondence + reference interpreter (textbook sets, value semantics)',
               gen_opts=dict(empty_rule=0.0, marker=0.5, rename=0.4, elide=0.4, action=0.4, whole_create=0.4), with_k1=False, maxlen=16,
               prefilter=lambda it: 'empty_rule' not in oracles.grammar_features(it['res']['dump'])
               and not kn.crossing_or_stale_markers(it['res']['dump']) and not kn.creation_in_choice_prefix(it['res']['dump']))


def check_C06(work, args):
    tree_check(work, 'C06', oracles.oracle_c06,
               'first error at the first offending token, strictly increasing positions: K3 correspondence + Earley viable-prefix oracle',
               gen_opts=dict(pred=0.0, assertion=0.0, choice=0.0), with_k1=False, maxlen=16,
               prefilter=lambda it: not ({'pred_user', 'pred_true', 'assert', 'choice'} & oracles.grammar_features(it['res']['dump']))
               and oracles.productive(it))


def check_C07(work, args):
    tree_check(work, 'C07', oracles.oracle_c07,
               'precedence and associativity: K2/K3 correspondence + definitional precedence-consistency oracle + reference precedence tree',
               gen_opts=dict(pratt=1.0, nrules=(2, 4), choice=0.05, marker=0.05, elide=0.05, ret=0.0), with_k1=False, maxlen=24,
               need=lambda g: 'pratt' in g.features)


def check_C08(work, args):
    tree_check(work, 'C08', oracles.oracle_c08,
               'backtracking leaves no trace: K3 correspondence + callback balance + reference interpreter with value semantics',
               gen_opts=dict(choice=0.9, commit=0.5, nrules=(2, 5), pred_true_only=True, assertion=0.0), with_k1=False, maxlen=16,
               need=lambda g: 'choice' in g.features,
               prefilter=lambda it: not ({'pred_user', 'assert'} & oracles.grammar_features(it['res']['dump'])))


def cases_c16(ck, it, n):
    if it.get('corpus') is not None:
        return std_cases(ck, it, n)
    g = it['g']
    out = []
    triv = list(g.skip) + ['Error']
    for e in [g.start] + list(g.parts):
        k = max(4, n // 4) if e == g.start else 3
        for toks in gen_grammar.inputs_for(g, ck.rng, e, k, maxlen=20, trivia=False):
            bits = ''.join(ck.rng.choice('01') for _ in range(ck.rng.randint(0, 5)))
            out.append((e, toks, bits))
            for _ in range(3):
                v = gen_grammar.add_trivia(ck.rng, toks, triv, p=0.35)
                if ck.rng.random() < 0.3:
                    v = [ck.rng.choice(triv)] + v
                if ck.rng.random() < 0.3:
                    v = v + [ck.rng.choice(triv)]
                if len(v) != len(toks):
                    out.append((e, v, bits))
    return out


def check_C16(work, args):
    tree_check(work, 'C16', oracles.make_oracle_c16(),
               'skipped tokens are transparent: K3 correspondence + pairwise comparison of parses with and without trivia',
               gen_opts=dict(skip=1.0), cases_fn=cases_c16, with_k1=True)
