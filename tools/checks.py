"""Per-property checks.  See DESIGN.md section 4 for the protocol."""
import collections
import glob
import json
import os
import random
import shutil
import sys
import tempfile
import time

import gen_grammar
import k1 as k1mod
import k3
import known
import lv


def main(pid, args):
    fn = globals().get('check_' + pid)
    if fn is None:
        print('no check for ' + pid)
        sys.exit(2)
    work = tempfile.mkdtemp(prefix='lv_%s_' % pid, dir=os.environ.get('TMPDIR', '/tmp'))
    try:
        fn(work, args)
    finally:
        shutil.rmtree(work, ignore_errors=True)


# ------------------------------------------------------------------ common steps

def proof_step(ck, pid):
    """steps 1-2: build the development, audit it, re-check the property file"""
    ok, msg = lv.build_model()
    st = {'build_ok': ok, 'build_msg': msg, 'theorems': [], 'props_ok': False, 'audit': []}
    if not ok:
        lv.log('proof build FAILED:\n' + msg)
        return st
    st['audit'] = lv.audit_sources()
    okp, thms, rep = lv.check_props(pid)
    st['props_ok'] = okp
    st['theorems'] = thms
    st['props_report'] = rep if not okp else ''
    if not okp:
        lv.log('property file check failed: ' + rep[-1500:])
    return st


def proof_broken(st):
    return (not st['build_ok']) or (not st['props_ok']) or bool(st['audit'])


def proof_summary(st):
    if not st['build_ok']:
        return 'Coq development does not build: ' + st['build_msg'][-800:]
    if st['audit']:
        return 'forbidden declarations: ' + '; '.join(st['audit'][:5])
    if not st['props_ok']:
        return 'property file does not check: ' + st.get('props_report', '')[-800:]
    return 'ok'


def gen_items(ck, work, n_wanted, opts=None, max_rounds=8, need=None, batch=None):
    """generate random grammars until n_wanted are accepted and compile; returns (items_ok, all_items)"""
    all_items = []
    good = []
    rounds = 0
    while len(good) < n_wanted and rounds < max_rounds:
        rounds += 1
        nb = batch or max(2 * n_wanted, 16)
        gs = [gen_grammar.Gen(ck.rng, opts).grammar() for _ in range(nb)]
        if need:
            gs = [g for g in gs if need(g)] or gs
        sub = os.path.join(work, 'r%d' % rounds)
        os.makedirs(sub, exist_ok=True)
        items = k3.prepare(sub, gs)
        acc = [it for it in items if it['res'].get('wrote')]
        acc = acc[:max(0, n_wanted - len(good))]
        k3.build_all(acc)
        all_items += items
        good += [it for it in acc if 'pb' in it and it['pb'].rustc_ok]
    return good, all_items


def corpus_items(work, pid):
    """minimised failures and hand-written regression grammars: corpus/*.json = {grammar, cases:[[entry,[toks],bits]], properties:[…]}"""
    files = sorted(glob.glob(os.path.join(lv.VERIF, 'corpus', '*.json')))
    texts, metas = [], []
    for f in files:
        try:
            j = json.load(open(f))
        except Exception:
            continue
        if 'grammar' not in j:
            continue
        if j.get('properties') and pid not in j['properties']:
            continue
        texts.append(j['grammar'])
        metas.append(j)
    if not texts:
        return []
    sub = os.path.join(work, 'corpus')
    os.makedirs(sub, exist_ok=True)
    items = k3.prepare(sub, [None] * len(texts), texts)
    for it, m in zip(items, metas):
        it['corpus'] = m
    acc = [it for it in items if it['res'].get('wrote')]
    k3.build_all(acc)
    return items


def std_cases(ck, it, n, maxlen=30):
    """inputs for one grammar item"""
    if it.get('corpus') is not None:
        cs = [(c[0], c[1], c[2] if len(c) > 2 else '') for c in it['corpus'].get('cases', [])]
        return cs
    g = it['g']
    cases = []
    entries = [g.start] + list(g.parts)
    for e in entries:
        k = n if e == g.start else max(4, n // 4)
        for toks in gen_grammar.inputs_for(g, ck.rng, e, k, maxlen=maxlen):
            bits = ''.join(ck.rng.choice('01') for _ in range(ck.rng.randint(0, 7)))
            cases.append((e, toks, bits))
    return cases


def report_build_problems(ck, items, pid):
    """translator failures / parsers that do not compile: a broken tie"""
    probs = []
    for it in items:
        if 'terror' in it:
            probs.append(('translator', it['terror'], it['text']))
        elif 'error' in it:
            probs.append(('build', it['error'], it['text']))
        elif 'pb' in it and not it['pb'].rustc_ok and pid == 'C11':
            probs.append(('rustc', it['pb'].rustc_err[-600:], it['text']))
    return probs


# ------------------------------------------------------------------ C01 / C02 (tree properties)

def tree_check(work, pid, oracle, level_text):
    ck = lv.Check(pid, 'proof')
    quick = ck.tier == 'quick'
    st = proof_step(ck, pid)
    lv.build_impl(bins=False)

    # ---- K1: builder histories
    pbk = k1mod.k1_driver(work)
    nh = 2000 if quick else 50000
    hs = [k1mod.gen_history(ck.rng) for _ in range(nh)]
    if not quick:
        hs += k1mod.enumerate_histories(5)
    corpus_h = os.path.join(lv.VERIF, 'corpus', 'k1_histories.txt')
    if os.path.exists(corpus_h):
        hs = [l.strip() for l in open(corpus_h) if l.strip() and not l.startswith('#')] + hs
    bi, bm = k1mod.run_k1(pbk, hs)
    k1dis, k1stats = k1mod.compare_k1(hs, bi, bm)

    # ---- K3: generated parsers
    n_g = 40 if quick else 600
    n_in = 40 if quick else 120
    citems = corpus_items(work, pid)
    good, all_items = gen_items(ck, work, n_g)
    run_items = [it for it in citems if 'pb' in it and it['pb'].rustc_ok] + good
    k3.run_all(run_items, lambda it: std_cases(ck, it, n_in))
    probs = report_build_problems(ck, all_items + citems, pid)

    kf = known.Known(pid)
    evals = 0
    distinct = set()
    disagreements = []
    failures = []
    feat = collections.Counter()
    sizes = collections.Counter()
    kinds = collections.Counter()
    gv_false = 0
    for it in run_items:
        if it.get('g') is not None:
            feat.update(it['g'].features)
        for (case, impl, model, cmp_) in it.get('cases', []):
            evals += 1
            entry, toks, bits = case
            sizes[min(len(toks) // 5 * 5, 40)] += 1
            kinds[impl['r'] + ('/diag' if impl.get('diags') else '')] += 1
            if impl['r'] == 'ok' and len(impl['nodes']) > 2:
                distinct.add((it['text'], entry, tuple(toks), bits))
            if model.get('gv') is False:
                gv_false += 1
            if cmp_ is not None:
                disagreements.append({'grammar': it['text'], 'entry': entry, 'tokens': toks, 'bits': bits, 'what': cmp_})
            o = oracle(it['pb'], toks, impl)
            if o is not None:
                rec = {'grammar': it['text'], 'entry': entry, 'tokens': toks, 'bits': bits, 'what': o,
                       'model_ghost_valid': model.get('gv'), 'impl_nodes': impl.get('nodes')}
                k = kf.match(it, case, impl, model)
                if k is not None:
                    kf.hit(k, rec)
                else:
                    failures.append(rec)
            elif model.get('gv') is False and impl['r'] == 'ok' and kf.match(it, case, impl, model) is None:
                # the model's discipline is violated but the direct oracle sees nothing: not a violation by
                # itself; recorded in the evidence
                pass

    # ---- known findings: re-run every recorded witness
    kf.rerun_witnesses(work, oracle, ck)

    # ---- verdict
    shown = 0
    for f in failures:
        if shown < 3:
            ck.violation(f['what'], f)
            shown += 1
    if not failures:
        broken = []
        if proof_broken(st):
            broken.append('proof: ' + proof_summary(st))
        if k1dis:
            broken.append('K1 correspondence (builder model vs CstData): %d histories disagree; first: %s' % (len(k1dis), json.dumps(k1dis[0])))
        if disagreements:
            broken.append('K3 correspondence (Exec.v on the translated program vs the compiled parser): %d cases disagree; first: %s' % (len(disagreements), json.dumps(disagreements[0])[:1500]))
        if probs:
            broken.append('tie: %d emitted parsers could not be translated/compiled; first: %s: %s' % (len(probs), probs[0][0], probs[0][1]))
        if broken:
            ck.violation('; '.join(broken)[:3000], {'broken': broken, 'k1': k1dis[:3], 'k3': disagreements[:3],
                                                   'build_problems': [(a, b, c) for a, b, c in probs[:3]]}, no_input=True)
    ck.known = kf.lines()
    samples = []
    for it in run_items[:3]:
        for (case, impl, model, cmp_) in it.get('cases', [])[:2]:
            samples.append({'grammar': it['text'], 'entry': case[0], 'tokens': case[1], 'bits': case[2],
                            'impl_result': impl['r'], 'nodes': impl.get('nodes'), 'diags': impl.get('diags')})
    samples.append({'k1_history': hs[min(5, len(hs) - 1)]})
    nthm = len(st['theorems'])
    obligations = nthm + 3
    discharged = (nthm if not proof_broken(st) else 0) + (0 if k1dis else 1) + (0 if disagreements else 1) + (0 if probs else 1)
    ck.cov = {
        'obligations': obligations, 'discharged': discharged,
        'checker_cmd': 'make -C coq (coq_makefile, full .vo) ; coqc -Q . LV Props/%s.v (Print Assumptions parsed) ; source audit grep' % pid,
        'trusted_base': lv.TRUSTED_BASE,
        'theorems': st['theorems'],
        'explanation': level_text,
        'programs': len(run_items), 'evaluations': evals + len(hs), 'distinct_nontrivial': len(distinct) + k1stats['valid_complete'],
        'rule': 'K3: random mostly-LL(1) grammars accepted by /repo (features below) x sentences, mutants, truncations, random strings, runs, with skipped/Error tokens; non-trivial = parse returned and tree has >2 nodes, distinct by (grammar, entry, tokens, oracle bits). K1: random mostly-valid builder histories; non-trivial = valid history closed with close_root whose reference tree flattens to the concrete vector',
        'disagreements_checked': evals + len(hs),
        'k1': k1stats, 'k1_histories': len(hs), 'k1_disagreements': len(k1dis),
        'k3_disagreements': len(disagreements), 'translator_or_build_problems': len(probs),
        'parsers_not_compiling_(C11_business)': len([1 for it in all_items + citems if 'pb' in it and not it['pb'].rustc_ok]),
        'grammars_generated': len(all_items), 'grammars_accepted_and_run': len(run_items),
        'feature_histogram': dict(feat), 'input_size_histogram': {str(k): v for k, v in sorted(sizes.items())},
        'result_kinds': dict(kinds), 'model_ghost_invalid_cases': gv_false,
        'known_finding_hits': kf.hits_summary(),
        'samples': samples,
    }
    ck.assumptions = ['see trusted_base', 'theorems are about coq/Model; the tie is K1 (op histories) + translator + K3 (whole parses)']
    ck.finish()


def check_C01(work, args):
    tree_check(work, 'C01', k3.oracle_c01,
               'lossless: theorems over Cst.v/ABuild.v/Runtime.v/Exec.v (see Props/C01.v) + K1/K3 correspondence + direct walk oracle')


def check_C02(work, args):
    tree_check(work, 'C02', k3.oracle_c02,
               'well-formed tree: refinement of the abstract builder for all valid histories (Props/C02.v) + K1/K3 + direct structural oracle')
