"""Per-property checks.  See DESIGN.md section 4 for the protocol."""
import collections
import glob
import json
import os
import random
import shutil
import sys
import tempfile
import time

import gen_grammar
import k1 as k1mod
import k3
import known
import lv


def main(pid, args):
    fn = globals().get('check_' + pid)
    if fn is None and pid in ('C12', 'C13', 'C17', 'C18'):
        import checks_front
        fn = getattr(checks_front, 'check_' + pid)
    if fn is None and pid == 'C20':
        import checks_lsp
        fn = checks_lsp.check_C20
    if fn is None:
        print('no check for ' + pid)
        sys.exit(2)
    work = tempfile.mkdtemp(prefix='lv_%s_' % pid, dir=os.environ.get('TMPDIR', '/tmp'))
    t0 = time.time()
    try:
        fn(work, args)
    except SystemExit:
        raise
    except Exception as e:  # noqa
        # a step of the machinery itself could not run against the current tree (the harness or llw does not build,
        # a tool crashed): the property is no longer shown to hold; say which step, as the protocol demands
        import traceback
        tb = traceback.format_exc()
        sys.stderr.write(tb)
        rdir = os.path.join(lv.VERIF, 'evidence', 'replay')
        os.makedirs(rdir, exist_ok=True)
        path = os.path.join(rdir, '%s_machinery.json' % pid)
        json.dump({'property': pid, 'what': 'the check could not be carried out against the current tree: %s' % repr(e)[:500],
                   'broken_step': tb[-3000:], 'replay': None}, open(path, 'w'), indent=1)
        tier = 'thorough' if 'thorough' in args else os.environ.get('VERIF_TIER', 'quick')
        ev = {'property_id': pid, 'tier': tier if tier in ('quick', 'thorough') else 'quick', 'seed': int(os.environ.get('VERIF_SEED', '1') or 1),
              'level': 'other', 'coverage': {'evaluations': 0, 'distinct_nontrivial': 0, 'rule': 'the run aborted before exploring anything: ' + repr(e)[:300],
                                             'samples': [repr(e)[:300]]},
              'assumptions': [], 'wall_s': round(time.time() - t0, 2), 'violations': 1}
        json.dump(ev, open(os.path.join(lv.VERIF, 'evidence', pid + '.json'), 'w'), indent=1)
        print('violation: the check could not be carried out against the current tree (%s)' % repr(e)[:300])
        print('VIOLATION property=%s replay=%s no-failing-input-found' % (pid, path))
        sys.exit(1)
    finally:
        shutil.rmtree(work, ignore_errors=True)


# ------------------------------------------------------------------ common steps

def has_props(pid):
    return os.path.exists(os.path.join(lv.COQ, 'Props', pid + '.v'))


PARTIAL_THEOREMS = ('C03', 'C07', 'C15', 'C16')


def level_for(pid):
    return 'proof' if has_props(pid) and pid not in PARTIAL_THEOREMS else 'translation_validation'


def proof_step(ck, pid):
    """steps 1-2: build the development, audit it, re-check the property file (when the property has one)"""
    ok, msg = lv.build_model()
    st = {'build_ok': ok, 'build_msg': msg, 'theorems': [], 'props_ok': False, 'audit': []}
    if ok and not has_props(pid):
        st['audit'] = lv.audit_sources()
        st['props_ok'] = True
        return st
    if not ok:
        lv.log('proof build FAILED:\n' + msg)
        return st
    st['audit'] = lv.audit_sources()
    okp, thms, rep = lv.check_props(pid)
    st['props_ok'] = okp
    st['theorems'] = thms
    st['props_report'] = rep if not okp else ''
    if not okp:
        lv.log('property file check failed: ' + rep[-1500:])
    return st


def proof_broken(st):
    return (not st['build_ok']) or (not st['props_ok']) or bool(st['audit'])


def proof_summary(st):
    if not st['build_ok']:
        return 'Coq development does not build: ' + st['build_msg'][-800:]
    if st['audit']:
        return 'forbidden declarations: ' + '; '.join(st['audit'][:5])
    if not st['props_ok']:
        return 'property file does not check: ' + st.get('props_report', '')[-800:]
    return 'ok'


def gen_items(ck, work, n_wanted, opts=None, max_rounds=8, need=None, batch=None):
    """generate random grammars until n_wanted are accepted and compile; returns (items_ok, all_items)"""
    all_items = []
    good = []
    rounds = 0
    while len(good) < n_wanted and rounds < max_rounds:
        rounds += 1
        nb = batch or max(2 * n_wanted, 16)
        gs = [gen_grammar.Gen(ck.rng, opts).grammar() for _ in range(nb)]
        if need:
            gs = [g for g in gs if need(g)] or gs
        sub = os.path.join(work, 'r%d' % rounds)
        os.makedirs(sub, exist_ok=True)
        items = k3.prepare(sub, gs)
        acc = [it for it in items if it['res'].get('wrote')]
        acc = acc[:max(0, n_wanted - len(good))]
        k3.build_all(acc)
        all_items += items
        good += [it for it in acc if 'pb' in it and it['pb'].rustc_ok]
    return good, all_items


def corpus_items(work, pid):
    """minimised failures and hand-written regression grammars: corpus/*.json = {grammar, cases:[[entry,[toks],bits]], properties:[…]}"""
    files = sorted(glob.glob(os.path.join(lv.VERIF, 'corpus', '*.json')))
    texts, metas = [], []
    for f in files:
        try:
            j = json.load(open(f))
        except Exception:
            continue
        if 'grammar' not in j:
            continue
        if j.get('properties') and pid not in j['properties']:
            continue
        texts.append(j['grammar'])
        metas.append(j)
    if not texts:
        return []
    sub = os.path.join(work, 'corpus')
    os.makedirs(sub, exist_ok=True)
    items = k3.prepare(sub, [None] * len(texts), texts)
    for it, m in zip(items, metas):
        it['corpus'] = m
    acc = [it for it in items if it['res'].get('wrote')]
    k3.build_all(acc)
    return items


REPO_GRAMMARS = ['src/frontend/lelwel.llw'] + ['examples/%s/src/%s.llw' % (d, f) for d, f in (
    ('brainfuck', 'brainfuck'), ('c', 'c'), ('calc', 'calc'), ('json', 'json'), ('l', 'l'), ('lua', 'lua'),
    ('oberon0', 'oberon0'), ('python2', 'python'), ('toml', 'toml'), ('wgsl', 'wgsl'))]


import rust2cmd  # noqa: E402


def repo_items(ck, work, n_cases, pairs=False):
    """the grammars checked into /repo (lelwel's own grammar first): emitted by the current llw, translated,
    compiled; inputs derived from the typed view.  Read from /repo's working tree on every run."""
    import dumpgen
    files = [os.path.join(lv.REPO, f) for f in REPO_GRAMMARS if os.path.exists(os.path.join(lv.REPO, f))]
    if not files:
        return []
    texts = [open(f).read() for f in files]
    sub = os.path.join(work, 'repo')
    os.makedirs(sub, exist_ok=True)
    items = k3.prepare(sub, [None] * len(texts), texts)
    acc = [it for it in items if it['res'].get('wrote')]
    k3.build_all(acc)
    for f, it in zip(files, items):
        it['repo_file'] = os.path.relpath(f, lv.REPO)
        if it['res'].get('dump'):
            it['corpus'] = {'cases': dumpgen.cases_for(it['res']['dump'], ck.rng, n_cases, pairs=pairs)}
    # lelwel's own parser as it is checked in (src/frontend/generated.rs): the implementation side is that file,
    # the model side the translation of what the generator emits for src/frontend/lelwel.llw today
    own = os.path.join(lv.REPO, 'src', 'frontend', 'generated.rs')
    if items and items[0].get('repo_file') == REPO_GRAMMARS[0] and 'pb' in items[0] and os.path.exists(own):
        base = items[0]
        d2 = os.path.join(sub, 'own')
        os.makedirs(d2, exist_ok=True)
        shutil.copy(os.path.join(base['dir'], 'out', 'generated.rs'), os.path.join(d2, 'generated.rs'))
        it2 = {'g': None, 'dir': d2, 'res': base['res'], 'text': base['text'], 'repo_file': 'src/frontend/generated.rs (checked in)'}
        try:
            it2['pb'] = lv.build_parser(d2, base['res'], impl_source=own)
            it2['corpus'] = {'cases': dumpgen.cases_for(base['res']['dump'], ck.rng, 3 * n_cases, pairs=pairs)}
            import rusttok
            it2['token_diff'] = rusttok.diff(open(os.path.join(d2, 'generated.rs')).read(), open(own).read(), 3)
        except rust2cmd.TranslateError as e:
            it2['terror'] = str(e)
        except Exception as e:  # noqa
            it2['error'] = repr(e)
        items.append(it2)
    return items


def frontend_parser_tie(ck, work, n_cases):
    """K3 on lelwel's own parser as checked in (src/frontend/generated.rs) against the model run on the translation
    of what the generator emits for src/frontend/lelwel.llw: result kinds, node vectors, diagnostics; the ghost must
    stay defined (then the theorems of C01/C02/C06/C08 apply to that run) and the parser must neither panic nor hang."""
    import dumpgen
    items = repo_items(ck, work, 4)
    own = [it for it in items if it.get('repo_file', '').startswith('src/frontend/generated.rs')]
    out = {'cases': 0, 'ghost_defined': 0, 'problems': [], 'token_diff_vs_regenerated': None, 'result_kinds': {}}
    if not own or 'pb' not in own[0] or not own[0]['pb'].rustc_ok:
        why = (own[0].get('terror') or own[0].get('error') or own[0]['pb'].rustc_err[-400:]) if own else 'lelwel.llw was not accepted or could not be translated'
        out['problems'].append({'what': 'the front-end parser could not be tied to the model: %s' % why})
        return out
    it = own[0]
    out['token_diff_vs_regenerated'] = it.get('token_diff')
    dump = it['res']['dump']
    cases = dumpgen.cases_for(dump, ck.rng, n_cases)
    toks = [t['name'] for t in dump['tokens']] + ['Error']
    for _ in range(n_cases // 2):
        cases.append((cases[0][0], [ck.rng.choice(toks) for _ in range(ck.rng.randint(1, 25))], ''.join(ck.rng.choice('01') for _ in range(4))))
    kinds = collections.Counter()
    for (case, impl, model, cmp_) in k3.run_cases(it, cases):
        out['cases'] += 1
        kinds[impl['r']] += 1
        if impl['r'] != 'ok':
            out['problems'].append({'entry': case[0], 'tokens': case[1], 'bits': case[2], 'what': 'lelwel\'s own parser: %s on this token sequence' % impl['r']})
        elif cmp_ is not None:
            out['problems'].append({'entry': case[0], 'tokens': case[1], 'bits': case[2], 'what': 'K3 (front-end parser vs model): ' + str(cmp_)[:400], 'correspondence': True})
        elif model.get('gv') is False:
            out['problems'].append({'entry': case[0], 'tokens': case[1], 'bits': case[2], 'what': 'the builder discipline (ghost) is violated in lelwel\'s own parser on this token sequence'})
        else:
            out['ghost_defined'] += 1
            o = k3.oracle_c01(it['pb'], case[1], impl) or k3.oracle_c02(it['pb'], case[1], impl)
            if o:
                out['problems'].append({'entry': case[0], 'tokens': case[1], 'bits': case[2], 'what': 'lelwel\'s own parser: ' + o})
    out['result_kinds'] = dict(kinds)
    return out


def std_cases(ck, it, n, maxlen=30):
    """inputs for one grammar item"""
    if it.get('corpus') is not None:
        cs = [(c[0], c[1], c[2] if len(c) > 2 else '') for c in it['corpus'].get('cases', [])]
        return cs
    g = it['g']
    cases = []
    entries = [g.start] + list(g.parts)
    for e in entries:
        k = n if e == g.start else max(4, n // 4)
        for toks in gen_grammar.inputs_for(g, ck.rng, e, k, maxlen=maxlen):
            bits = ''.join(ck.rng.choice('01') for _ in range(ck.rng.randint(0, 7)))
            cases.append((e, toks, bits))
    return cases


def report_build_problems(ck, items, pid):
    """translator failures / parsers that do not compile: a broken tie"""
    probs = []
    for it in items:
        if 'terror' in it:
            probs.append(('translator', it['terror'], it['text']))
        elif 'error' in it:
            probs.append(('build', it['error'], it['text']))
        elif 'pb' in it and not it['pb'].rustc_ok and pid == 'C11':
            probs.append(('rustc', it['pb'].rustc_err[-600:], it['text']))
    return probs


# ------------------------------------------------------------------ C01 / C02 (tree properties)

def tree_check(work, pid, oracle, level_text, gen_opts=None, need=None, cases_fn=None, with_k1=True, n_quick=(40, 40), n_thorough=(600, 120), maxlen=30, prefilter=None, with_repo=False, k2_on_items=False, with_kb=True):
    ck = lv.Check(pid, level_for(pid))
    quick = ck.tier == 'quick'
    st = proof_step(ck, pid)
    lv.build_impl(bins=False)

    # ---- K1: builder histories
    hs = []
    k1dis, k1stats = [], {'valid_complete': 0}
    if with_k1:
        pbk = k1mod.k1_driver(work)
        nh = 2000 if quick else 50000
        hs = [k1mod.gen_history(ck.rng) for _ in range(nh)]
        if not quick:
            hs += k1mod.enumerate_histories(5)
        corpus_h = os.path.join(lv.VERIF, 'corpus', 'k1_histories.txt')
        if os.path.exists(corpus_h):
            hs = [l.strip() for l in open(corpus_h) if l.strip() and not l.startswith('#')] + hs
        bi, bm = k1mod.run_k1(pbk, hs)
        k1dis, k1stats = k1mod.compare_k1(hs, bi, bm)

    # ---- K3: generated parsers
    n_g, n_in = n_quick if quick else n_thorough
    citems = corpus_items(work, pid)
    ritems = repo_items(ck, work, 10 if quick else 60, pairs=(pid == 'C16')) if with_repo else []
    citems = ritems + citems
    good, all_items = gen_items(ck, work, n_g, opts=gen_opts, need=need)
    run_items = [it for it in citems if 'pb' in it and it['pb'].rustc_ok] + good
    if prefilter:
        run_items = [it for it in run_items if prefilter(it)]
    k3.run_all(run_items, (lambda it: cases_fn(ck, it, n_in)) if cases_fn else (lambda it: std_cases(ck, it, n_in, maxlen=maxlen)))
    probs = report_build_problems(ck, all_items + citems, pid)
    # emitted parsers the translator cannot read (the tie is broken for them): the properties whose direct oracle needs
    # the implementation's output only still search these parsers for a failing input
    impl_only_failures = []
    impl_only_runs = 0
    if pid in ('C01', 'C02', 'C03'):
        for it in (all_items + citems):
            pbi = it.get('pb_impl')
            if pbi is None or not pbi.rustc_ok or len(impl_only_failures) >= 3:
                continue
            try:
                cs = cases_fn(ck, it, n_in) if cases_fn else std_cases(ck, it, n_in, maxlen=maxlen)
                for case, impl in k3.run_impl_only(it, cs):
                    impl_only_runs += 1
                    it['pb'] = pbi
                    try:
                        o = oracle(it, case, impl, {})
                    finally:
                        del it['pb']
                    if o is not None:
                        impl_only_failures.append({'grammar': it['text'], 'entry': case[0], 'tokens': case[1], 'bits': case[2], 'what': o,
                                                   'note': 'found on the compiled parser alone: the emitted code is outside the command language (%s)' % it.get('terror')})
                        break
            except Exception as e:  # noqa
                lv.log('implementation-only run failed: %r' % e)
    # optionally the analysis tie (K2) on the very grammars whose parsers are run: recursion classes, binding powers, sets
    k2dis = []
    k2n = 0
    if k2_on_items:
        import k2
        todo = []
        for it in run_items:
            d = it['res'].get('dump')
            if not d or not d['sema']['sets']:
                continue
            try:
                if k2.count_nodes(d) <= k2.MAX_NODES:
                    sx, ids = k2.grammar_sexp(d)
                    todo.append((it, sx, ids))
            except k2.Unresolved:
                pass
        k2n = len(todo)
        for (it, sx, ids), m in zip(todo, k2.run_model([x[1] for x in todo]) if todo else []):
            if m['r'] != 'ok':
                k2dis.append({'grammar': it['text'], 'what': 'model result ' + m['r']})
                continue
            df = k2.compare(it['res']['dump'], it['res']['diags'], m, ids)
            if df:
                k2dis.append({'grammar': it['text'], 'what': df[0]})

    # ---- KB: the back-end model (Compile.v) must produce, for every accepted grammar of this run, the very program
    # the translator reads off the emitted parser (a static tie: it holds for all inputs of that grammar at once)
    kbn = kbskip = 0
    kbdiffs = []
    if with_kb:
        import kb
        kb_items = [it for it in all_items + citems if 'pb' in it]
        kbn, kbskip, kbd = kb.compare_items(kb_items, max_nodes=(400 if quick else 900))
        kbdiffs = [{'grammar': it['text'], 'what': d} for it, d in kbd]

    kf = known.Known(pid)
    evals = 0
    distinct = set()
    disagreements = []
    failures = []
    feat = collections.Counter()
    sizes = collections.Counter()
    kinds = collections.Counter()
    gv_false = 0
    certs = collections.defaultdict(set)
    for it in run_items:
        if it.get('g') is not None:
            feat.update(it['g'].features)
        for (case, impl, model, cmp_) in it.get('cases', []):
            evals += 1
            entry, toks, bits = case
            sizes[min(len(toks) // 5 * 5, 40)] += 1
            kinds[impl['r'] + ('/diag' if impl.get('diags') else '')] += 1
            if impl['r'] == 'ok' and len(impl['nodes']) > 2:
                distinct.add((it['text'], entry, tuple(toks), bits))
            if model.get('gv') is False:
                gv_false += 1
            for ck_, cv_ in model.items():
                if ck_.startswith('cert_') and cv_:
                    certs[ck_].add(it['text'])
            if cmp_ is not None:
                disagreements.append({'grammar': it['text'], 'entry': entry, 'tokens': toks, 'bits': bits, 'what': cmp_})
            o = oracle(it, case, impl, model)
            if o is not None:
                rec = {'grammar': it['text'], 'entry': entry, 'tokens': toks, 'bits': bits, 'what': o,
                       'model_ghost_valid': model.get('gv'), 'impl_nodes': impl.get('nodes')}
                k = kf.match(it, case, impl, model)
                if k is not None:
                    kf.hit(k, rec)
                else:
                    failures.append(rec)
            elif model.get('gv') is False and impl['r'] == 'ok' and kf.match(it, case, impl, model) is None:
                # the model's discipline is violated but the direct oracle sees nothing: not a violation by
                # itself; recorded in the evidence
                pass

    # ---- known findings: re-run every recorded witness
    kf.rerun_witnesses(work, oracle, ck)

    # ---- verdict
    failures = impl_only_failures + failures
    shown = 0
    for f in failures:
        if shown < 3:
            ck.violation(f['what'], f)
            shown += 1
    if not failures:
        broken = []
        if proof_broken(st):
            broken.append('proof: ' + proof_summary(st))
        if k1dis:
            broken.append('K1 correspondence (builder model vs CstData): %d histories disagree; first: %s' % (len(k1dis), json.dumps(k1dis[0])))
        if disagreements:
            broken.append('K3 correspondence (Exec.v on the translated program vs the compiled parser): %d cases disagree; first: %s' % (len(disagreements), json.dumps(disagreements[0])[:1500]))
        if probs:
            broken.append('tie: %d emitted parsers could not be translated/compiled; first: %s: %s' % (len(probs), probs[0][0], probs[0][1]))
        if k2dis:
            broken.append('K2 correspondence (Sema.v vs SemanticPass) on the grammars of this run: %d disagree; first: %s' % (len(k2dis), json.dumps(k2dis[0])[:1200]))
        if kbdiffs:
            broken.append('KB correspondence (Compile.v vs the program translated from the emitted parser): %d of %d grammars differ; first: %s' % (len(kbdiffs), kbn, json.dumps(kbdiffs[0])[:1500]))
        if broken:
            ck.violation('; '.join(broken)[:3000], {'broken': broken, 'k1': k1dis[:3], 'k3': disagreements[:3], 'kb': kbdiffs[:3],
                                                   'build_problems': [(a, b, c) for a, b, c in probs[:3]]}, no_input=True)
    ck.known = kf.lines()
    samples = []
    for it in run_items[:3]:
        for (case, impl, model, cmp_) in it.get('cases', [])[:2]:
            samples.append({'grammar': it['text'], 'entry': case[0], 'tokens': case[1], 'bits': case[2],
                            'impl_result': impl['r'], 'nodes': impl.get('nodes'), 'diags': impl.get('diags')})
    if hs:
        samples.append({'k1_history': hs[min(5, len(hs) - 1)]})
    nthm = len(st['theorems'])
    obligations = nthm + 3 + (1 if with_kb else 0)
    discharged = (nthm if not proof_broken(st) else 0) + (0 if k1dis else 1) + (0 if disagreements else 1) + (0 if probs else 1) \
        + (1 if with_kb and not kbdiffs else 0)
    ck.cov = {
        'obligations': obligations, 'discharged': discharged,
        'checker_cmd': 'make -C coq (coq_makefile, full .vo) ; coqc -Q . LV Props/%s.v (Print Assumptions parsed) ; source audit grep' % pid,
        'trusted_base': lv.TRUSTED_BASE,
        'theorems': st['theorems'],
        'explanation': level_text,
        'k2_grammars': k2n, 'k2_disagreements': len(k2dis),
        'kb_backend_model': {'grammars_compared_program_equal': kbn - len(kbdiffs), 'differ': len(kbdiffs), 'skipped_too_large_or_unresolved': kbskip,
                             'what': 'Compile.compile g (Sema.analyse g) = translation of the emitted generated.rs, up to rule/message naming and pattern order'},
        'repo_grammars': [it['repo_file'] for it in ritems if 'pb' in it and it['pb'].rustc_ok],
        'frontend_parser_token_diff_vs_regenerated': next((it.get('token_diff') for it in ritems if 'token_diff' in it), None),
        'programs': len(run_items), 'evaluations': evals + len(hs), 'distinct_nontrivial': len(distinct) + k1stats['valid_complete'],
        'rule': 'K3: random mostly-LL(1) grammars accepted by /repo (features below) x sentences, mutants, truncations, random strings, runs, with skipped/Error tokens; non-trivial = parse returned and tree has >2 nodes, distinct by (grammar, entry, tokens, oracle bits). K1: random mostly-valid builder histories; non-trivial = valid history closed with close_root whose reference tree flattens to the concrete vector',
        'disagreements_checked': evals + len(hs),
        'k1': k1stats, 'k1_histories': len(hs), 'k1_disagreements': len(k1dis),
        'k3_disagreements': len(disagreements), 'translator_or_build_problems': len(probs),
        'implementation_only_runs_on_untranslatable_parsers': impl_only_runs,
        'parsers_not_compiling_(C11_business)': len([1 for it in all_items + citems if 'pb' in it and not it['pb'].rustc_ok]),
        'grammars_generated': len(all_items), 'grammars_accepted_and_run': len(run_items),
        'feature_histogram': dict(feat), 'input_size_histogram': {str(k): v for k, v in sorted(sizes.items())},
        'result_kinds': dict(kinds), 'model_ghost_invalid_cases': gv_false,
        'theorem_hypotheses_evaluated': {'ghost_defined(cases)': evals - gv_false,
                                         **{k: '%d of %d programs' % (len(v), len(run_items)) for k, v in certs.items()}},
        'known_finding_hits': kf.hits_summary(),
        'samples': samples,
    }
    ck.assumptions = ['see trusted_base', 'theorems are about coq/Model; the tie is K1 (op histories) + translator + K3 (whole parses)']
    ck.finish()


def check_C01(work, args):
    tree_check(work, 'C01', lambda it, case, impl, model: k3.oracle_c01(it['pb'], case[1], impl),
               'lossless: theorems over Cst.v/ABuild.v/Runtime.v/Exec.v (see Props/C01.v) + K1/K3 correspondence + direct walk oracle', with_repo=True)


def check_C02(work, args):
    tree_check(work, 'C02', lambda it, case, impl, model: k3.oracle_c02(it['pb'], case[1], impl),
               'well-formed tree: refinement of the abstract builder for all valid histories (Props/C02.v) + K1/K3 + direct structural oracle', with_repo=True)


# ------------------------------------------------------------------ C09 / C10 / C14 (analysis properties)

def repo_grammar_texts():
    out = []
    for pat in ('tests/frontend/*.llw', 'examples/*/src/*.llw', 'src/frontend/*.llw'):
        for f in sorted(glob.glob(os.path.join(lv.REPO, pat))):
            try:
                out.append((os.path.relpath(f, lv.REPO), open(f).read()))
            except Exception:
                pass
    return out


def analysis_inputs(ck, work, n_small, n_gen):
    """list of (label, text): corpus, repo grammars, random small unconstrained, random mostly-LL(1)"""
    texts = []
    for f in sorted(glob.glob(os.path.join(lv.VERIF, 'corpus', 'analysis_*.llw'))):
        texts.append(('corpus:' + os.path.basename(f), open(f).read()))
    texts += [('repo:' + n, t) for n, t in repo_grammar_texts()]
    for i in range(n_small):
        texts.append(('small', gen_grammar.gen_small(ck.rng).text()))
    for i in range(n_gen):
        texts.append(('gen', gen_grammar.Gen(ck.rng, dict(unique_lead=ck.rng.choice([0.0, 0.4, 0.75]))).grammar().text()))
    paths = []
    for i, (lab, t) in enumerate(texts):
        p = os.path.join(work, 'a%d.llw' % i)
        open(p, 'w').write(t)
        paths.append(p)
    return texts, paths


def analysis_check(work, pid, level_text):
    import k2
    import textbook
    ck = lv.Check(pid, level_for(pid))
    quick = ck.tier == 'quick'
    st = proof_step(ck, pid)
    lv.build_impl(bins=False)
    texts, paths = analysis_inputs(ck, work, 2500 if quick else 40000, 400 if quick else 4000)
    if not quick:
        import enum_small
        for t in enum_small.enumerate_grammars():
            p = os.path.join(work, 'e%d.llw' % len(paths))
            open(p, 'w').write(t)
            texts.append(('exhaustive', t))
            paths.append(p)
    res = lv.harness_sema(paths)
    kinds = collections.Counter()
    failures = []
    k2_todo = []
    evals = 0
    distinct = set()
    samples = []
    for (lab, text), r in zip(texts, res):
        src = lab.split(':')[0]
        if r.get('panic'):
            kinds['panic'] += 1
            if pid == 'C09':
                failures.append({'grammar': text, 'what': 'semantic analysis panicked'})
            continue
        d = r.get('dump')
        if not d or not d['sema']['sets']:
            kinds[src + '/no-sets(name resolution or syntax errors)'] += 1
            continue
        accepted = r['accepted']
        try:
            if k2.count_nodes(d) <= k2.MAX_NODES:
                sx, ids = k2.grammar_sexp(d)
                k2_todo.append((text, r, sx, ids))
            else:
                kinds['too-big-for-K2'] += 1
        except k2.Unresolved:
            pass
        g = textbook.Grammar(d)
        if not g.is_reduced():
            kinds[src + '/not-reduced'] += 1
            continue
        g.analyse()
        evals += 1
        kinds[src + ('/accepted' if accepted else '/rejected')] += 1
        codes = [x['code'] for x in r['diags']]
        if any(c in ('E011', 'E012', 'E013', 'E014') for c in codes) or len(d['rules']) > 1:
            distinct.add(text)
        if len(samples) < 3 and src != 'repo':
            samples.append({'grammar': text, 'accepted': accepted, 'codes': codes})
        if pid == 'C09':
            df = textbook.compare_sets(d, g)
            if df:
                failures.append({'grammar': text, 'what': 'set of node %d: %s is %s but the textbook set is %s' % df[0], 'diffs': df[:5]})
        elif pid == 'C10':
            want = textbook.expected_conflicts(g)
            got = sorted((x['code'], tuple((l['start'], l['end']) for l in x['labels'] if l['primary'])[0])
                         for x in r['diags'] if x['code'] in ('E011', 'E012', 'E013', 'E014', 'E015'))
            if want != got:
                failures.append({'grammar': text, 'what': 'conflict verdicts differ: reported %s, definition gives %s' % (got[:5], want[:5])})
        elif pid == 'C14':
            if not accepted:
                continue
            rules_by_id = {x['id']: x['name'] for x in d['rules']}
            used = [rules_by_id[u] for u in d['sema']['used'] if u in rules_by_id and u not in d['sema']['parts'] or
                    (u in rules_by_id and u in d['sema']['parts'] and False)]
            # `used` as dumped already contains the parts RecoverySetGenerator marked; recompute usage independently
            used = independent_usage(g)
            want = textbook.recovery_expected(g, used)
            sets = d['sema']['sets']
            eofs = {'EOF'} | {'EOF' + textbook.pascal(p) for p in g.parts if g.rules[p]['regex'] is not None}
            for nid, w in want.items():
                got = set(sets.get(str(nid), {}).get('recovery', []))
                if got != w:
                    failures.append({'grammar': text, 'what': 'recovery set of node %d is %s, dominator-follow definition gives %s' % (nid, sorted(got), sorted(w))})
                    break
                fol = set(sets.get(str(nid), {}).get('follow', []))
                if not eofs <= (fol | got):
                    failures.append({'grammar': text, 'what': 'loop %d: end-of-input token(s) %s neither in follow nor in recovery' % (nid, sorted(eofs - fol - got))})
                    break
    # ---- K2: model vs implementation
    k2dis = []
    k2_cap = 500 if quick else 8000
    if len(k2_todo) > k2_cap:
        # keep corpus/repo grammars (first in the list) and a random sample of the rest
        head = k2_todo[:60]
        k2_todo = head + ck.rng.sample(k2_todo[60:], k2_cap - len(head))
    mres = k2.run_model([x[2] for x in k2_todo]) if k2_todo else []
    certs = collections.Counter()
    for (text, r, sx, ids), m in zip(k2_todo, mres):
        if m['r'] != 'ok':
            k2dis.append({'grammar': text, 'what': 'model result ' + m['r']})
            continue
        cf = m.get('cert_first')
        if cf is not None:
            certs['first: ids unique=%s productive=%s closed=%s' % (cf['wf_ids'], cf['productive'], cf['closed'])] += 1
            if pid == 'C09' and cf['wf_ids'] and cf['productive'] and not cf['closed']:
                failures.append({'grammar': text, 'what': 'first sets are not closed under the first-set inclusions (hypothesis first_closed of theorem C09_first_sets_exact is false), so some derivable head token is missing'})
        cfo = m.get('cert_follow')
        if cfo is not None:
            certs['follow: closed=%s' % cfo['closed']] += 1
            if pid == 'C09' and cf is not None and cf['wf_ids'] and not cfo['closed']:
                failures.append({'grammar': text, 'what': 'follow sets are not closed under the follow inclusions (hypothesis fol_closed of theorem C09_follow_sets_exact is false), so some token that can follow a construct is missing'})
        if 'cert_recovery' in m:
            cr = m['cert_recovery']
            certs['recovery: %s' % ('not computed (grammar rejected)' if cr is None else 'graph/fixpoint/ids certificates=%s' % cr)] += 1
            if pid == 'C14' and cr is False and r['accepted']:
                failures.append({'grammar': text, 'what': 'the certificates of theorem C14_recovery_sets_are_dominator_follow_sets (graph_ok, dom_fixed, nodup) do not hold for the computed dominator map'})
        df = k2.compare(r['dump'], r['diags'], m, ids)
        if df:
            k2dis.append({'grammar': text, 'what': df[0], 'all': df[:4]})
    # C14's last clause speaks about the generated loops: its theorem is about Compile.c_recover, tied to the back end by KB
    kbres = None
    if pid == 'C14':
        kbres = kb_only(ck, work, 120 if quick else 3000, max_nodes=400 if quick else 900)
    for f in failures[:3]:
        ck.violation(f['what'], f)
    if not failures:
        broken = []
        if proof_broken(st):
            broken.append('proof: ' + proof_summary(st))
        if k2dis:
            broken.append('K2 correspondence (Sema.v vs SemanticPass): %d grammars disagree; first: %s' % (len(k2dis), json.dumps(k2dis[0])[:1500]))
        if kbres and (kbres[2] or kbres[3]):
            broken.append('KB correspondence (Compile.v vs the program translated from the emitted parser): %d grammars differ, %d emitted parsers not translatable; first: %s' % (len(kbres[2]), kbres[3], json.dumps(kbres[2][:1])[:1500]))
        if broken:
            ck.violation('; '.join(broken)[:3000], {'broken': broken, 'k2': k2dis[:3], 'kb': (kbres[2][:3] if kbres else [])}, no_input=True)
    nthm = len(st['theorems'])
    kb_ob = 1 if kbres else 0
    kb_ok = 1 if kbres and not kbres[2] and not kbres[3] else 0
    ck.cov = {
        'obligations': nthm + 1 + kb_ob, 'discharged': (nthm if not proof_broken(st) else 0) + (0 if k2dis else 1) + kb_ok,
        'kb_backend_model': (None if not kbres else {'grammars_compared_program_equal': kbres[0], 'differ': len(kbres[2]), 'skipped_too_large_or_unresolved': kbres[1], 'not_translatable': kbres[3]}),
        'checker_cmd': 'make -C coq ; coqc -Q . LV Props/%s.v (Print Assumptions parsed) ; source audit grep' % pid,
        'trusted_base': lv.TRUSTED_BASE, 'theorems': st['theorems'], 'explanation': level_text,
        'programs': len(k2_todo), 'disagreements_checked': len(k2_todo), 'k2_disagreements': len(k2dis),
        'evaluations': evals, 'distinct_nontrivial': len(distinct),
        'rule': 'grammars: repo fixtures/examples, random unconstrained small grammars (recursion, hidden left recursion, nullable constructs, parts), random mostly-LL(1) grammars%s; evaluated = reduced grammars that passed name resolution; non-trivial = more than one rule or at least one LL(1) conflict, distinct by text' % ('' if quick else ', exhaustive small space'),
        'input_kinds': dict(kinds), 'samples': samples, 'exhaustive': False,
        'certificates': dict(certs),
    }
    ck.assumptions = ['reference sets/verdicts/dominators computed by tools/textbook.py on a BNF built from the typed view, names re-bound by name']
    ck.finish()


def independent_usage(g):
    used = set()
    todo = [g.start]
    while todo:
        n = todo.pop()
        if n in used or n not in g.rules:
            continue
        used.add(n)
        b = g.rules[n]['regex']

        def visit(x):
            if x['k'] == 'name' and x.get('value') and x['value'][0].islower():
                todo.append(x['value'])
            for c in (x.get('ops') or []):
                visit(c)
            if x.get('op') is not None:
                visit(x['op'])
        if b is not None:
            visit(b)
    return used


def kb_only(ck, work, n_grammars, opts=None, with_repo=True, max_nodes=400):
    """the back-end tie alone: random accepted grammars (+ the grammars checked into /repo) are emitted by the current
    back end and translated (no rustc, no runs); Compile.v must produce the same programs.
    returns (n_equal, n_skipped, diffs, n_untranslatable)"""
    import kb
    import rust2cmd
    gs = [gen_grammar.Gen(ck.rng, opts).grammar() for _ in range(n_grammars)]
    sub = os.path.join(work, 'kb')
    os.makedirs(sub, exist_ok=True)
    items = k3.prepare(sub, gs)
    if with_repo:
        files = [os.path.join(lv.REPO, f) for f in REPO_GRAMMARS if os.path.exists(os.path.join(lv.REPO, f))]
        sub2 = os.path.join(work, 'kbrepo')
        os.makedirs(sub2, exist_ok=True)
        texts = [open(f).read() for f in files]
        items = k3.prepare(sub2, [None] * len(texts), texts) + items
    acc = [it for it in items if it['res'].get('wrote')]
    bad = 0
    for it in acc:
        try:
            text = open(os.path.join(it['dir'], 'out', 'generated.rs')).read()
            pb = lv.ParserBuild()
            pb.tok_ids = lv.token_ids(it['res']['dump'])
            pb.tr = rust2cmd.translate(text, pb.tok_ids)
            pb.sexp = rust2cmd.program_sexp(pb.tr)
            it['pb'] = pb
        except rust2cmd.TranslateError as e:
            it['terror'] = str(e)
            bad += 1
    n, skipped, diffs = kb.compare_items(acc, max_nodes=max_nodes)
    return n - len(diffs), skipped, [{'grammar': it['text'], 'what': d} for it, d in diffs], bad


def check_C09(work, args):
    analysis_check(work, 'C09', 'first/follow/predict: Coq model of LL1Validator (Sema.v) tied by K2; reference = textbook sets on an independent BNF')


def check_C10(work, args):
    analysis_check(work, 'C10', 'LL(1) conflicts: Coq model of LL1Validator::check tied by K2; reference verdicts from the definition with textbook sets')


def check_C14(work, args):
    analysis_check(work, 'C14', 'recovery sets: Coq model of RecoverySetGenerator tied by K2; reference = brute-force dominators on an independent graph')


# ------------------------------------------------------------------ C03 - C08, C16 (parser behaviour)
import oracles  # noqa: E402


def cases_c03(ck, it, n):
    cs = std_cases(ck, it, n, maxlen=60)
    if it.get('corpus') is not None:
        return cs
    g = it['g']
    dv = gen_grammar.Deriver(g, ck.rng)
    alphabet = [t for t in g.tokens if t not in g.skip]
    for e in [g.start] + list(g.parts):
        s = dv.derive(e)[:40]
        for i in range(len(s) + 1):
            cs.append((e, s[:i], '1'))
        cs.append((e, [ck.rng.choice(alphabet) for _ in range(ck.rng.randint(1, 6))], '0'))
    for t in ck.rng.sample(alphabet, min(3, len(alphabet))):
        cs.append((g.start, [t] * 200, '0'))
    cs.append((g.start, [ck.rng.choice(alphabet + ['Error'] + list(g.skip)) for _ in range(150)], '01'))
    return cs


def check_C03(work, args):
    tree_check(work, 'C03', oracles.oracle_c03,
               'totality: K3 correspondence (Exec.v on the translated program vs the compiled parser, incl. fuel exhaustion vs watchdog) + catch_unwind/watchdog oracle',
               gen_opts=dict(parts=0.7, nrules=(2, 6)), cases_fn=cases_c03, with_k1=False, prefilter=oracles.productive, with_repo=True,
               n_quick=(40, 30), n_thorough=(500, 120))


def check_C04(work, args):
    tree_check(work, 'C04', oracles.oracle_c04,
               'no diagnostic iff sentence: K3 correspondence + Earley membership / prioritised reference interpreter',
               gen_opts=dict(pred_true_only=True, assertion=0.0, choice=0.5, nrules=(2, 5)), with_k1=False, maxlen=16, with_repo=True,
               prefilter=lambda it: not ({'pred_user', 'assert'} & oracles.grammar_features(it['res']['dump'])))


def check_C05(work, args):
    import known as kn
    tree_check(work, 'C05', oracles.oracle_c05,
               'derivation tree with node operators: K3 correspondence + reference interpreter (textbook sets, value semantics)',
               gen_opts=dict(empty_rule=0.0, marker=0.5, rename=0.4, elide=0.4, action=0.4, whole_create=0.4), with_k1=False, maxlen=16, with_repo=True,
               prefilter=lambda it: 'empty_rule' not in oracles.grammar_features(it['res']['dump'])
               and not kn.crossing_or_stale_markers(it['res']['dump']) and not kn.creation_in_choice_prefix(it['res']['dump']))


def check_C06(work, args):
    tree_check(work, 'C06', oracles.oracle_c06,
               'first error at the first offending token, strictly increasing positions: K3 correspondence + Earley viable-prefix oracle',
               gen_opts=dict(pred=0.0, assertion=0.0, choice=0.0), with_k1=False, maxlen=16, with_repo=True,
               prefilter=lambda it: not ({'pred_user', 'pred_true', 'assert', 'choice'} & oracles.grammar_features(it['res']['dump']))
               and oracles.productive(it))


def check_C07(work, args):
    tree_check(work, 'C07', oracles.oracle_c07,
               'precedence and associativity: K2/K3 correspondence + definitional precedence-consistency oracle + reference precedence tree',
               gen_opts=dict(pratt=1.0, nrules=(2, 4), choice=0.05, marker=0.05, elide=0.05, ret=0.0), with_k1=False, maxlen=24, with_repo=True, k2_on_items=True,
               need=lambda g: 'pratt' in g.features)


def check_C08(work, args):
    tree_check(work, 'C08', oracles.oracle_c08,
               'backtracking leaves no trace: K3 correspondence + callback balance + reference interpreter with value semantics',
               gen_opts=dict(choice=0.9, commit=0.5, nrules=(2, 5), pred_true_only=True, assertion=0.0), with_k1=False, maxlen=16,
               need=lambda g: 'choice' in g.features,
               # crossing / stale markers (known findings D5a, D5c, judged by C01/C02) garble the tree whether or not
               # anything is backtracked; the tree comparison of this check is about the effect of backtracking
               prefilter=lambda it: not ({'pred_user', 'assert'} & oracles.grammar_features(it['res']['dump']))
               and not known.crossing_or_stale_markers(it['res']['dump']))


def cases_c16(ck, it, n):
    if it.get('corpus') is not None:
        return std_cases(ck, it, n)
    g = it['g']
    out = []
    triv = list(g.skip) + ['Error']
    for e in [g.start] + list(g.parts):
        k = max(4, n // 4) if e == g.start else 3
        for toks in gen_grammar.inputs_for(g, ck.rng, e, k, maxlen=20, trivia=False):
            bits = ''.join(ck.rng.choice('01') for _ in range(ck.rng.randint(0, 5)))
            out.append((e, toks, bits))
            for _ in range(3):
                v = gen_grammar.add_trivia(ck.rng, toks, triv, p=0.35)
                if ck.rng.random() < 0.3:
                    v = [ck.rng.choice(triv)] + v
                if ck.rng.random() < 0.3:
                    v = v + [ck.rng.choice(triv)]
                if len(v) != len(toks):
                    out.append((e, v, bits))
    return out


def check_C16(work, args):
    tree_check(work, 'C16', oracles.make_oracle_c16(),
               'skipped tokens are transparent: K3 correspondence + pairwise comparison of parses with and without trivia',
               gen_opts=dict(skip=1.0), cases_fn=cases_c16, with_k1=True, with_repo=True, with_kb=False)


# ------------------------------------------------------------------ C19 (driver)
def check_C19(work, args):
    import k5
    ck = lv.Check('C19', 'proof')
    st = proof_step(ck, 'C19')
    lv.build_impl(bins=True)
    total, ran, bad, samples = k5.run_table(work)
    # direct oracle on the observed behaviour (independent of the model): the property's clauses
    viol = []
    for d in bad:
        viol.append(d)
    for d in viol[:3]:
        what = 'llw %s on a %s grammar (lexer.rs %s, parser.rs %s): wrote %s and exited %s; the driver model (Cli.v, which satisfies the property on every row) predicts %s and exit %s' % (
            d['cmd'], d['verdict'], 'exists' if d['lexer_exists'] else 'absent', 'exists' if d['parser_exists'] else 'absent',
            d['observed_effects'] or 'nothing', d['observed_exit'], d['model_effects'] or 'nothing', d['model_exit'])
        ck.violation(what, d)
    if not viol and proof_broken(st):
        ck.violation('proof: ' + proof_summary(st), {'broken': proof_summary(st)}, no_input=True)
    nthm = len(st['theorems'])
    ck.cov = {
        'obligations': nthm + 1, 'discharged': (nthm if not proof_broken(st) else 0) + (0 if bad else 1),
        'checker_cmd': 'make -C coq ; coqc -Q . LV Props/C19.v (Print Assumptions parsed) ; source audit grep',
        'trusted_base': lv.TRUSTED_BASE + ['file system behaviour (creation, permissions, mtime) is the real OS, observed by snapshots before/after each run'],
        'theorems': st['theorems'],
        'explanation': 'theorem over the complete finite domain of the driver model; K5 runs the real binary on every realisable row and compares created/modified files and exit status with the model',
        'programs': 4, 'disagreements_checked': ran, 'evaluations': ran, 'distinct_nontrivial': ran - len(bad),
        'rule': 'all %d rows of Cli.all_rows that can be realised as root (an unwritable default output directory cannot: %d rows skipped) x one grammar per verdict; non-trivial = every row (each is a distinct configuration)' % (total, 7680 - total),
        'exhaustive': True, 'k5_disagreements': len(bad), 'samples': samples,
    }
    ck.finish()


# ------------------------------------------------------------------ C11 (accepted grammars compile, rejected write nothing)
WEIRD_NAMES = ['foo_bar', 'fooBar', 'foo__bar', 'a_b', 'aB', 'a_B', 'r_1', 'error_x', 'eOF', 'node', 'rule_x', 'parse', 'type_', 'self_x', 'x_', 'new']


def rename_rules(g, rng):
    """adversarial names for rules, rename targets and created nodes"""
    mp = {}
    pool = list(WEIRD_NAMES)
    rng.shuffle(pool)
    for n, e, r in g.rules[1:]:
        if pool and rng.random() < 0.6:
            mp[n] = pool.pop()

    def rn(x):
        k = x[0]
        if k == 'rule':
            return ('rule', mp.get(x[1], x[1]))
        if k in ('alt', 'choice', 'cat'):
            return (k, [rn(y) for y in x[1]])
        if k in ('star', 'plus', 'opt', 'paren'):
            return (k, rn(x[1]))
        if k == 'rename' and rng.random() < 0.5:
            return ('rename', rng.choice(WEIRD_NAMES))
        if k == 'create' and x[2] is not None and rng.random() < 0.5:
            return ('create', x[1], rng.choice(WEIRD_NAMES))
        return x
    g.rules = [(mp.get(n, n), e, rn(r) if r is not None else None) for n, e, r in g.rules]
    g.parts = [mp.get(p, p) for p in g.parts]
    return g


def pascal_collision(dump):
    from textbook import pascal
    names = set(['error'])
    if dump['sema']['parts']:
        names.add('part')
    for r in dump['rules']:
        if r['name']:
            names.add(r['name'])
    for nm, refs in dump['sema']['rule_bindings']:
        names.add(nm)
    seen = {}
    for n in names:
        p = pascal(n)
        if p in seen and seen[p] != n:
            return True
        seen[p] = n
    return False


def return_after_commit_in_choice(dump):
    """a `&` in a non-final alternative of an ordered choice behind a commit `~`: it is emitted as
    `return;` inside the alternative's closure, which returns Option<()>"""
    found = [False]

    def scan_alt(x, committed):
        # returns whether a commit has been passed (sequentially)
        k = x['k']
        if k == 'commit':
            return True
        if k == 'return' and committed:
            found[0] = True
        if k == 'concat':
            for o in x['ops']:
                committed = scan_alt(o, committed)
            return committed
        for o in (x.get('ops') or []):
            scan_alt(o, committed)
        if x.get('op') is not None:
            scan_alt(x['op'], committed)
        return committed

    def visit(x):
        if x['k'] == 'choice':
            for alt in x['ops'][:-1]:
                scan_alt(alt, False)
        for o in (x.get('ops') or []):
            visit(o)
        if x.get('op') is not None:
            visit(x['op'])
    for r in dump['rules']:
        if r['regex'] is not None:
            visit(r['regex'])
    return found[0]


C11_CLASSES = {}


def check_C11(work, args):
    ck = lv.Check('C11', 'proof')
    quick = ck.tier == 'quick'
    st = proof_step(ck, 'C11')
    lv.build_impl(bins=True)
    n = 150 if quick else 2500
    gs = []
    for i in range(n):
        g = gen_grammar.Gen(ck.rng, dict(empty_rule=0.15, parts=0.4, rename=0.4, marker=0.3, whole_create=0.4, pred=0.3, pratt=0.4, assertion=0.3, action=0.3)).grammar()
        if ck.rng.random() < 0.35:
            g = rename_rules(g, ck.rng)
        gs.append(g)
    extra = []
    for f in sorted(glob.glob(os.path.join(lv.VERIF, 'corpus', 'c11_*.llw'))):
        extra.append(open(f).read())
    items = k3.prepare(os.path.join(work, 'c11'), gs + [None] * len(extra), [None] * len(gs) + extra)
    acc = [it for it in items if it['res'].get('wrote')]
    rej = [it for it in items if not it['res'].get('accepted') and not it['res'].get('panic')]
    k3.build_all(acc)
    failures = []
    known_hits = 0
    kfs = [e for e in lv.known_findings() if 'C11' in e['properties']]
    for it in items:
        if it['res'].get('panic'):
            failures.append({'grammar': it['text'], 'what': 'lelwel panicked while analysing / generating (in-process harness)'})
    for it in acc:
        if 'terror' in it or 'error' in it:
            continue
        if not it['pb'].rustc_ok:
            classes = {'pascal_case_collision': pascal_collision, 'return_after_commit_in_choice': return_after_commit_in_choice}
            if any(e['class'] in classes and classes[e['class']](it['res']['dump']) for e in kfs):
                known_hits += 1
                continue
            failures.append({'grammar': it['text'], 'what': 'accepted grammar, but the generated parser does not compile: ' + it['pb'].rustc_err[:600]})
    tprobs = [it for it in acc if 'terror' in it]
    # KB: the back-end model must produce the program the translator reads off each emitted parser
    import kb
    kbn, kbskip, kbd = kb.compare_items([it for it in acc if 'pb' in it], max_nodes=(400 if quick else 900))
    kbdiffs = [{'grammar': it['text'], 'what': d} for it, d in kbd]
    # the real binary: graph output on accepted grammars, no parser file for rejected ones
    import subprocess

    def cli(it_flags):
        it, flags = it_flags
        d = os.path.join(it['dir'], 'cli')
        os.makedirs(d, exist_ok=True)
        shutil.copy(os.path.join(it['dir'], 'g.llw'), os.path.join(d, 'g.llw'))
        r = subprocess.run([lv.LLW_BIN] + flags + ['g.llw'], cwd=d, stdout=subprocess.PIPE, stderr=subprocess.PIPE, text=True, timeout=120)
        return r.returncode, r.stderr[-400:], sorted(os.listdir(d))
    from concurrent.futures import ThreadPoolExecutor
    sample_acc = acc[:60 if quick else 600]
    sample_rej = rej[:80 if quick else 800]
    with ThreadPoolExecutor(16) as ex:
        ra = list(ex.map(cli, [(it, ['-g']) for it in sample_acc]))
        rr = list(ex.map(cli, [(it, ['-g']) for it in sample_rej]))
    for it, (code, err, files) in zip(sample_acc, ra):
        if code != 0 or 'generated.rs' not in files or 'parser.gv' not in files:
            failures.append({'grammar': it['text'], 'what': '`llw -g` on an accepted grammar exited %s, files %s: %s' % (code, files, err.replace('\n', ' ')[-300:])})
    for it, (code, err, files) in zip(sample_rej, rr):
        if 'generated.rs' in files or 'parser.gv' in files or 'lexer.rs' in files or 'parser.rs' in files:
            failures.append({'grammar': it['text'], 'what': 'lelwel reported an error (exit %s) but wrote %s' % (code, [f for f in files if f != 'g.llw'])})
        elif code != 1:
            failures.append({'grammar': it['text'], 'what': '`llw` on a grammar with an error exited %s: %s' % (code, err.replace('\n', ' ')[-300:])})
    codes = collections.Counter(c['code'] for it in rej for c in it['res'].get('diags', []) if c['severity'] == 'error')
    for f in failures[:3]:
        ck.violation(f['what'], f)
    if not failures:
        broken = []
        if proof_broken(st):
            broken.append('proof: ' + proof_summary(st))
        if tprobs:
            broken.append('translator: %d emitted parsers are outside the command language; first: %s' % (len(tprobs), tprobs[0]['terror']))
        if kbdiffs:
            broken.append('KB correspondence (Compile.v vs the program translated from the emitted parser): %d of %d grammars differ; first: %s' % (len(kbdiffs), kbn, json.dumps(kbdiffs[0])[:1200]))
        if broken:
            ck.violation('; '.join(broken)[:2000], {'broken': broken, 'grammar': tprobs[0]['text'] if tprobs else None, 'kb': kbdiffs[:3]}, no_input=True)
    for e in kfs:
        w = e.get('witness')
        if not w:
            continue
        its = k3.prepare(os.path.join(work, 'kf_' + e['id']), [None], [w['grammar']])
        k3.build_all([x for x in its if x['res'].get('wrote')])
        if its[0]['res'].get('wrote') and 'pb' in its[0] and not its[0]['pb'].rustc_ok:
            ck.known.append('%s: grammar %r is accepted but the generated parser does not compile: %s' % (e['id'], w['grammar'].replace('\n', ' '), its[0]['pb'].rustc_err[:160].replace('\n', ' ')))
    feat = collections.Counter(f for it in acc if it.get('g') is not None for f in it['g'].features)
    nthm = len(st['theorems'])
    ck.cov = {
        'obligations': nthm + 2, 'discharged': (nthm if not proof_broken(st) else 0) + (0 if tprobs else 1) + (0 if kbdiffs else 1),
        'kb_backend_model': {'grammars_compared_program_equal': kbn - len(kbdiffs), 'differ': len(kbdiffs), 'skipped_too_large_or_unresolved': kbskip},
        'theorem_hypotheses_evaluated': {
            'prog_scoped(compile g) true (C11_scoped_program_never_stuck applies: no unbound variable, missing rule function, wrong rec arity or escaping break/return on any input)':
                len([1 for it in acc if it.get('kb_scoped') is True]),
            'prog_scoped false': len([1 for it in acc if it.get('kb_scoped') is False]),
            'prog_scoped false although rustc accepts the parser (the check is stricter than rustc there; theorem not applicable)':
                len([1 for it in acc if it.get('kb_scoped') is False and 'pb' in it and it['pb'].rustc_ok]),
            'prog_scoped true although rustc rejects the parser (a type/lifetime error outside the model)':
                len([1 for it in acc if it.get('kb_scoped') is True and 'pb' in it and not it['pb'].rustc_ok])},
        'checker_cmd': 'make -C coq ; coqc -Q . LV Props/C11.v (Print Assumptions parsed) ; source audit grep',
        'trusted_base': lv.TRUSTED_BASE + ['rustc decides "compiles"; the driver implements every callback of the generated trait'],
        'theorems': st['theorems'],
        'explanation': 'gating theorem on the driver model (no parser file unless error-free) + every accepted sampled grammar is emitted, translated and compiled by rustc against a full callback implementation; rejected ones are run through the real binary',
        'programs': len(acc), 'disagreements_checked': len(acc), 'evaluations': len(items) + len(sample_acc) + len(sample_rej),
        'distinct_nontrivial': len(set(it['text'] for it in acc)) + len(set(it['text'] for it in sample_rej)),
        'rule': 'random grammars over every operator and declaration kind (empty rules, renamed/created node names incl. adversarial names, parts, predicates); accepted ones are compiled, a sample of accepted/rejected ones goes through `llw -g`; non-trivial = distinct grammar text that was compiled or run through the binary',
        'accepted': len(acc), 'rejected': len(rej), 'error_codes_of_rejected': dict(codes), 'feature_histogram': dict(feat),
        'attributed_to_known_findings': known_hits,
        'samples': [{'grammar': it['text'], 'compiled': it['pb'].rustc_ok} for it in acc[:3] if 'pb' in it],
    }
    ck.finish()


# ------------------------------------------------------------------ C15 (reproducible, order independent)
def sets_by_position(dump):
    """sets keyed by (rule name, pre-order index of the node inside the rule)"""
    out = {}
    sets = dump['sema']['sets']

    def visit(x, rule, ctr):
        i = ctr[0]
        ctr[0] += 1
        s = sets.get(str(x['id']), {})
        out[(rule, i, x['k'])] = {k: tuple(sorted(v)) for k, v in s.items()}
        for o in (x.get('ops') or []):
            visit(o, rule, ctr)
        if x.get('op') is not None:
            visit(x['op'], rule, ctr)
    inch = set(dump['sema'].get('in_choice', []))
    used = set(dump['sema'].get('used', []))

    def marks(x, rule, ctr):
        i = ctr[0]
        ctr[0] += 1
        out[(rule, i, x['k'])]['in_choice'] = x['id'] in inch
        for o in (x.get('ops') or []):
            marks(o, rule, ctr)
        if x.get('op') is not None:
            marks(x['op'], rule, ctr)
    for r in dump['rules']:
        if r['regex'] is not None and r['name']:
            visit(r['regex'], r['name'], [0])
            marks(r['regex'], r['name'], [0])
        if r['name']:
            out[('rule', r['name'], 'decl')] = {'in_choice': r['id'] in inch, 'used': r['id'] in used}
    return out


def const_oracle_cases(cases):
    """the K3 predicate/assertion oracle depends on token ids (through peek), which change when the token
    declarations are permuted; for comparisons across permutations the answers are made constant"""
    return [(e, t, ('1' if b.count('1') * 2 > len(b) else '0') if b else '') for e, t, b in cases]


def check_C15(work, args):
    import subprocess
    from concurrent.futures import ThreadPoolExecutor
    ck = lv.Check('C15', level_for('C15'))
    quick = ck.tier == 'quick'
    st = proof_step(ck, 'C15')
    lv.build_impl(bins=True)
    n = 30 if quick else 400
    nperm = 2 if quick else 6
    gs = [gen_grammar.Gen(ck.rng, dict(choice=0.6, nrules=(2, 6)) if i % 2 else None).grammar() for i in range(n * 3)]
    sub = os.path.join(work, 'base')
    items = k3.prepare(sub, gs)
    acc = [it for it in items if it['res'].get('wrote')][:n]
    failures = []
    # (a) repeated runs in fresh processes, different working directories and environments
    def two_runs(it):
        outs = []
        for k in range(2):
            d = os.path.join(it['dir'], 'run%d' % k, 'deep' * k)
            os.makedirs(d, exist_ok=True)
            shutil.copy(os.path.join(it['dir'], 'g.llw'), os.path.join(d, 'g.llw'))
            env = dict(os.environ)
            env['LV_NOISE'] = 'x' * (17 * k + 1)
            env['HOME'] = d
            r = subprocess.run([lv.LLW_BIN, '-s', 'g.llw'], cwd=d, env=env, stdout=subprocess.PIPE, stderr=subprocess.PIPE, timeout=120)
            gen = open(os.path.join(d, 'generated.rs'), 'rb').read() if os.path.exists(os.path.join(d, 'generated.rs')) else None
            outs.append((r.returncode, r.stderr, gen))
        return outs
    with ThreadPoolExecutor(16) as ex:
        runs = list(ex.map(two_runs, acc))
    for it, (a, b) in zip(acc, runs):
        if a != b:
            what = 'exit status' if a[0] != b[0] else ('diagnostics' if a[1] != b[1] else 'generated code')
            failures.append({'grammar': it['text'], 'what': 'two runs of llw on the same grammar in fresh processes differ in the ' + what})
    # (b) permutations of the top-level declarations
    ptexts, pidx = [], []
    for i, it in enumerate(acc):
        ptexts.append(it['g'].text_reversed())
        pidx.append(i)
        for k in range(nperm):
            ptexts.append(it['g'].text_permuted(ck.rng))
            pidx.append(i)
    pitems = k3.prepare(os.path.join(work, 'perm'), [None] * len(ptexts), ptexts)
    for it2, i in zip(pitems, pidx):
        it2['g'] = acc[i]['g']
    # parsers are only built for the pairs whose behaviour is compared (disk and time)
    max_pairs = 45 if quick else 1200
    wrote = [k for k, it2 in enumerate(pitems) if it2['res'].get('wrote')]
    chosen = set(wrote[:max_pairs])
    k3.build_all([acc[i] for i in sorted(set(pidx[k] for k in chosen))] + [pitems[k] for k in sorted(chosen)])
    evals = 0
    distinct = set()
    for it2, i in zip(pitems, pidx):
        base = acc[i]
        evals += 1
        if it2['text'] != base['text']:
            distinct.add(it2['text'])
        if not it2['res'].get('accepted'):
            failures.append({'grammar': base['text'], 'permuted': it2['text'], 'what': 'a permutation of the declarations of an accepted grammar is rejected: %s' % [d['code'] for d in it2['res']['diags']]})
            continue
        sa, sb = sets_by_position(base['res']['dump']), sets_by_position(it2['res']['dump'])
        if sa != sb:
            k0 = [k for k in sa if sa.get(k) != sb.get(k)][:1]
            failures.append({'grammar': base['text'], 'permuted': it2['text'], 'what': 'analysis sets change under a permutation of the declarations, e.g. at %s: %s vs %s' % (k0, sa.get(k0[0]) if k0 else None, sb.get(k0[0]) if k0 else None)})
            continue

        def warn_key(it):
            t = it['text']
            return sorted((d['code'], d['message'], tuple(t[l['start']:l['end']] for l in d['labels'])) for d in it['res']['diags'])
        if warn_key(base) != warn_key(it2):
            failures.append({'grammar': base['text'], 'permuted': it2['text'], 'what': 'warnings change under a permutation of the declarations: %s vs %s' % (warn_key(base)[:3], warn_key(it2)[:3])})
            continue
    # parser behaviour: same inputs through the parsers of base and permutations (compared by names)
    pairs = [(acc[i], it2) for it2, i in zip(pitems, pidx) if 'pb' in it2 and it2['pb'].rustc_ok and 'pb' in acc[i] and acc[i]['pb'].rustc_ok]
    pairs = pairs[:max_pairs]
    inputs_cache = {}
    def behav(pair):
        base, it2 = pair
        key = id(base)
        if key not in inputs_cache:
            inputs_cache[key] = const_oracle_cases(std_cases(ck, base, 12))
        cases = inputs_cache[key]
        ra = k3.run_cases(base, cases)
        rb = k3.run_cases(it2, cases)
        out = []
        for (c, ia, ma, ca), (_, ib, mb, cb) in zip(ra, rb):
            ta = oracles.show_tree(oracles.impl_tree(base['pb'], ia)) if ia['r'] == 'ok' else ia['r']
            tb = oracles.show_tree(oracles.impl_tree(it2['pb'], ib)) if ib['r'] == 'ok' else ib['r']
            if ta != tb or ia.get('diags') != ib.get('diags'):
                out.append({'grammar': base['text'], 'permuted': it2['text'], 'entry': c[0], 'tokens': c[1], 'bits': c[2],
                            'what': 'the parsers generated from a grammar and from a permutation of its declarations behave differently: %s / %s vs %s / %s' % (ta[:200], ia.get('diags'), tb[:200], ib.get('diags'))})
                break
        return out
    # inputs are drawn sequentially (one PRNG), runs are parallel
    for p_ in pairs:
        if id(p_[0]) not in inputs_cache:
            inputs_cache[id(p_[0])] = const_oracle_cases(std_cases(ck, p_[0], 12))
    with ThreadPoolExecutor(16) as ex:
        for o in ex.map(behav, pairs):
            failures += o
    for f in failures[:3]:
        ck.violation(f['what'], f)
    if not failures and proof_broken(st):
        ck.violation('proof: ' + proof_summary(st), {'broken': proof_summary(st)}, no_input=True)
    nthm = len(st['theorems'])
    ck.cov = {
        'obligations': max(1, nthm), 'discharged': nthm if not proof_broken(st) else 0,
        'checker_cmd': 'make -C coq ; coqc -Q . LV Props/C15.v (Print Assumptions parsed) ; source audit grep',
        'trusted_base': lv.TRUSTED_BASE + ['cross-process behaviour (hash seeds, working directory, environment) is runtime behaviour observed on the real binary only'],
        'theorems': st['theorems'],
        'explanation': 'partial: order-independence theorems on the analysis model where proved; cross-process determinism and parser behaviour under permutation are observed on the real binary and compiled parsers',
        'programs': len(acc), 'disagreements_checked': evals + len(acc), 'evaluations': evals + 2 * len(acc) + len(pairs),
        'distinct_nontrivial': len(distinct),
        'rule': 'accepted random grammars; each run twice in fresh processes (different cwd, HOME, environment size) and printed in %d random declaration orders (token list split and shuffled too); non-trivial = permuted text differs from the original, distinct by text' % nperm,
        'behaviour_pairs': len(pairs),
        'samples': [{'grammar': acc[0]['text'], 'permuted': pitems[0]['text']}] if acc and pitems else [],
    }
    ck.finish()
