#!/usr/bin/env python3
"""Regenerates MANIFEST.json from the table below (levels follow what is proved today:
a property with a Props/<id>.v file is claimed at level 'proof', the others at the
level of their tie)."""
import json
import os

V = os.path.dirname(os.path.dirname(os.path.abspath(__file__)))

NOTE = ('Trusted: Coq 8.16.1 kernel; no axioms (Print Assumptions parsed on every run); translator tools/rust2cmd.py, '
        'extraction (ExtrOcamlBasic only), OCaml/Rust drivers and the Python diff for the correspondence; model '
        'abstractions listed in DESIGN.md 5.5')

T = {
 'C01': ('Coq: refinement of the abstract tree builder (all valid histories), decode/leaves theorems; translator + K1/K3 correspondence; direct walk oracle',
         'Rocq theorems over the builder model + regenerated translation of the emitted parser + correspondence'),
 'C02': ('Coq theorem: every valid builder history refines the reference tree model without panic and root-closing yields the pre-order layout of the reference tree (unbounded); per-run ghost discipline + K1/K3 correspondence + structural oracle',
         'Rocq refinement proof (abstract builder) + translator/correspondence'),
 'C03': ('translation validation: emitted parser translated to the Exec.v command language and run against the compiled parser (fuel exhaustion vs watchdog); catch_unwind/watchdog oracle; back-end model Compile.v tied by program equality (KB); Coq theorems for two clauses: a result other than fuel exhaustion is the same for every larger fuel, and the loop the back end emits for a repetition/option is left without consuming when the current token is in its follow or recovery set and cannot start the body (the end-of-input clause)',
         'translator + K3/KB correspondence (Rocq models Exec.v, Compile.v), totality oracle; Rocq theorems for two clauses'),
 'C04': ('translation validation + Earley membership / prioritised reference interpreter; theorems pending',
         'translator + correspondence, Earley and reference-interpreter oracles'),
 'C05': ('translation validation + reference interpreter building the derivation tree with node operators; theorems pending',
         'translator + correspondence, reference interpreter'),
 'C06': ('Coq theorems: diagnostics strictly increasing and in bounds for every program without assertion/ordered-choice statements, every input; the back-end model Compile.v produces only such programs for every grammar without ordered choice and assertions (no per-parser certificate), tied to src/backend/rust.rs by program equality with the translated emitted parser (KB); first-error position by K3 correspondence + Earley viable-prefix oracle',
         'Rocq theorems over Exec.v and Compile.v + translator, K3/KB correspondence, viable-prefix oracle'),
 'C07': ('translation validation (program and analysis) + definitional precedence-consistency oracle; Coq theorems for the binding-power table only (earlier branch strictly tighter, left unless declared right, one swap)',
         'translator + K2/K3 correspondence, precedence oracle'),
 'C08': ('Coq theorems: an abandoned alternative restores position, token, diagnostics, error state and the abstract tree state exactly, for every program/input/oracle/fuel; callback balance and value semantics by K3 correspondence + reference interpreter',
         'translator + correspondence, reference interpreter'),
 'C09': ('Coq theorems: the first and follow sets returned by the transcribed fixpoint loops are exactly the derivation-defined / textbook-rule sets for every grammar with unique node ids (first: also every node productive), with no hypothesis on the result (closure of the computed maps is proved); predict = first extended by follow; tie by K2 correspondence + textbook oracle on an independent BNF',
         'Rocq model + K2 correspondence, textbook oracle'),
 'C10': ('Coq theorem: E011/E013/E014 are reported exactly where the definition of an LL(1) conflict holds (all maps, all expressions outside operator branches); E012 and the tie by K2 correspondence + definitional oracle with textbook sets',
         'Rocq model + K2 correspondence, definitional oracle'),
 'C11': ('Coq theorems: on the driver model no parser/skeleton/graph file is written for a rejected grammar (whole domain); a program that passes the boolean scoping check (variables bound under block scoping, rule functions present, rec arity, no break/return escaping a choice alternative) never reaches a stuck statement on any input - evaluated on Compile.compile of every accepted grammar of the run, which KB ties to the emitted parser; types, lifetimes and the file preamble are decided by rustc on every sampled accepted grammar incl. adversarial names; real binary for rejected ones',
         'Rocq proofs over Cli.v and Exec.v (Scoped.v) + KB/K5 correspondence + rustc on emitted parsers'),
 'C12': ('Coq theorems for the lexing stage (Lexer.v, tied to the logos lexer by correspondence on every explored text): token spans tile the text, every token and lexer-diagnostic span is non-empty, in bounds and on character boundaries, for all texts; parser stage tied to Exec.v (K3 on the checked-in src/frontend/generated.rs, ghost defined on every run, so the C01/C06 theorems apply to it); analysis stage and panic freedom by exhaustive short lexeme sequences, mutants and byte soup through the real front end under catch_unwind (exploration)',
         'Rocq lexer model + correspondence; exploration of the real front end for the stages without a model'),
 'C13': ('Coq theorem for the lexing half (Lexer.v): every sequence of well-formed tokens written with any layout that satisfies an exact no-fusion side condition (separators may be empty wherever the neighbours cannot fuse; the condition is proved necessary) is read back as exactly those tokens and that trivia, with no diagnostic; the parsing half (tokens -> typed view) by generator AST vs typed view of the real front end under random layouts (exploration)',
         'Rocq lexer read-back theorem + correspondence; round-trip exploration for the parser half'),
 'C14': ('Coq theorems: the elimination loop computes exactly the dominators (paths in the predecessor graph) for every graph, iteration order and fuel - the fixpoint property of the result is proved - and recovery = union of dominator follow sets minus first/follow of the body; the end-of-input token is in follow or recovery of every loop, and the emitted loop (Compile.c_recover, tied by KB) is left on such a token; K2 correspondence + brute-force dominators on an independent graph',
         'Rocq model + K2/KB correspondence, brute-force dominator oracle'),
 'C15': ('partial: cross-process determinism and behaviour under permuted declarations observed on the real binary and compiled parsers; Coq theorems (dominator sets independent of the hash iteration order; first, follow and predict sets independent of the order of the rule declarations, as corollaries of the C09 exactness theorems)',
         'differential runs of the real binary and generated parsers'),
 'C16': ('translation validation + pairwise comparison of parses with and without trivia; Coq theorems for one clause only (the current token and the predicate lookahead are never skipped tokens, for every program/input)',
         'translator + K1/K3 correspondence, trivia-pair oracle'),
 'C17': ("Coq theorems over a model of the formatter's item generator (Fmt.v = src/backend/format.rs function by function, tied by an item-by-item correspondence through a cfg(lelwel_verif) hook): for every tree and source the string items carry exactly the non-whitespace characters of the token leaves in order, conditions carry no strings, no string contains tab/newline, indentation and newline groups are balanced on every consistent resolution, the generator panics exactly on Decl/Postfix/Regex nodes; lexer lossless theorem (Lexer.v) for the text -> tokens step, C01 for tokens -> tree. The layout engine (dprint-core printer) is outside the model: that its output has the non-whitespace characters of the items is checked per text, which is why the claimed level stays exploration although the generator half is proved. Token/diagnostic preservation on valid grammars by exploration",
         'Rocq proofs over Fmt.v and Lexer.v + item-level correspondence; printer output checked per text'),
 'C18': ('partial by design (the layout engine is an external crate with width-dependent choices and save points; no Gallina model of it was built, so idempotence has no theorem): idempotence explored on random layouts and through the real CLI, known findings recorded; the item generator is tied to Fmt.v by the same correspondence as C17',
         'exploration of the real formatter and CLI; Rocq model of the item generator tied by correspondence'),
 'C19': ('Coq theorem over the complete finite domain of the driver model (Cli.v); K5 runs the real binary on every realisable row and compares files and exit status',
         'Rocq proof by complete enumeration + exhaustive correspondence'),
 'C20': ("Coq theorems over a model of the server's logic (Lsp.v: document store state machine and UTF-16 position conversion, tied to ide::Cache, compat::* (cfg hook) and the real lelwel-ls by correspondence): for every history the outputs are those of a specification that reads only the latest text of each document, conformant histories never crash, documents are independent, one publication per text notification; for every text/position/offset the conversions stay inside the document on character boundaries and round-trip (exact side condition). Diagnostics = CLI, definition/references agreement, hover sets, threads and transport: exploration of the real server",
         'Rocq proofs over Lsp.v + correspondence with ide::Cache and lelwel-ls; exploration for analysis-dependent answers'),
}


# properties whose Props file proves one clause only: the claimed level stays the level of the rest
PARTIAL_THEOREMS = ('C03', 'C07', 'C15', 'C16', 'C12', 'C13', 'C17')


def level(pid):
    if pid in ('C12', 'C13', 'C17'):
        return 'exploration'
    if pid in PARTIAL_THEOREMS:
        return 'translation_validation'
    if os.path.exists(os.path.join(V, 'coq', 'Props', pid + '.v')):
        return 'proof'
    if pid in ('C12', 'C13', 'C17', 'C18', 'C20'):
        return 'exploration'
    if pid == 'C15':
        return 'translation_validation'
    return 'translation_validation'


HOOK_COMMITS = ['6cbe329 hook: expose the formatter\'s print items for verification (cfg lelwel_verif)',
                '50e6097 hook: expose position conversion for verification (cfg lelwel_verif)']


def main():
    checks = []
    for pid in sorted(T):
        txt, tech = T[pid]
        checks.append({
            'property_id': pid, 'quick_cmd': './check %s --tier quick' % pid, 'thorough_cmd': './check %s --tier thorough' % pid,
            'evidence_file': '/verif/evidence/%s.json' % pid, 'replay_cmd_template': './check %s --replay {path}' % pid,
            'engine': 'rocq-model',
            'level_claimed': {'category': level(pid), 'text': txt, 'design_ref': 'DESIGN.md section 6/' + pid},
            'level_note': NOTE, 'technique': tech})
    m = {'version': 1, 'setup_cmd': './setup.sh',
         'hooks': {'guard': 'lelwel_verif', 'enable': "RUSTFLAGS='--cfg lelwel_verif' (set by tools/lv.py for every cargo build of /repo and of the harness)",
                   'baseline_off_cmd': 'cd /repo && cargo test --workspace --no-fail-fast --offline', 'source_commits': HOOK_COMMITS, 'add_only': True},
         'engines': [{'name': 'rocq-model', 'path': '/verif/coq', 'serves_properties': sorted(T),
                      'kind_free_text': 'Coq 8.16 development (model + theorems), extracted OCaml driver, translator and correspondence harness'}],
         'checks': checks, 'not_applicable': [], 'notes': 'see DESIGN.md; levels are regenerated by tools/mkmanifest.py from what is proved'}
    json.dump(m, open(os.path.join(V, 'MANIFEST.json'), 'w'), indent=1)


if __name__ == '__main__':
    main()
