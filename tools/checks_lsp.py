"""C20: the language server survives any session and answers from the latest text.

Oracles on the real implementation, in-process (`lv-harness lsp`, ide::Cache driven exactly as
src/bin/lelwel-ls.rs drives it) and over stdio (the lelwel-ls binary):
 (i)   no crash, no dead analysis thread, every request answered;
 (ii)  published diagnostics == those of the command-line check on the latest text;
 (iii) go-to-definition / find-references agree with the names in the text and with each other;
 (iv)  hover shows the first/follow/predict(/recovery) sets of the analysis for the node under the cursor;
 (v)   every returned range lies inside the document; formatting edits give what `llw -f` gives.
"""
import collections
import hashlib
import json
import os
import random
import re
import shutil
import subprocess
import sys
import time
from concurrent.futures import ThreadPoolExecutor

import k6_lsp as k6
import lv

WORKERS = 16
CRASH_ORACLES = ('crash', 'hang', 'panic', 'dead_thread')


# ---------------------------------------------------------------- ground truth (command-line front end)

_SEMA_OK = None


def _sema_cmd():
    """`batch-sema` (analysis only) when the harness has it, else `batch-gen`"""
    global _SEMA_OK
    if _SEMA_OK is None:
        r = subprocess.run([lv.HARNESS_BIN, 'batch-sema'], input=b'', stdout=subprocess.PIPE, stderr=subprocess.PIPE)
        _SEMA_OK = r.returncode == 0
    return _SEMA_OK


def _gen_batch(paths, outdir):
    """returns one result dict per path; survives a dying harness process (the harness buffers its
    output, so after a crash the rest of the batch is redone one text per process to find the culprit)"""
    sema = _sema_cmd()

    def run(ps):
        if sema:
            inp = ''.join(p + '\n' for p in ps)
            cmd = [lv.HARNESS_BIN, 'batch-sema']
        else:
            inp = ''.join('%s\t%s\n' % (p, outdir) for p in ps)
            cmd = [lv.HARNESS_BIN, 'batch-gen']
        r = subprocess.run(cmd, input=inp.encode(), stdout=subprocess.PIPE, stderr=subprocess.PIPE, timeout=1800)
        outs = []
        for l in r.stdout.decode('utf-8', 'replace').split('\n'):
            if l.strip():
                try:
                    outs.append(json.loads(l))
                except Exception:
                    outs.append({'garbled': True})
        return r, outs
    r, outs = run(paths)
    if r.returncode == 0 and len(outs) == len(paths):
        return outs
    res = []
    for p in paths:
        r, outs = run([p])
        if r.returncode == 0 and len(outs) == 1:
            res.append(outs[0])
        else:
            res.append({'crash': r.returncode, 'stderr': r.stderr.decode('utf-8', 'replace')[-300:]})
    return res


def _walk_regex(r, f):
    if r is None:
        return
    f(r)
    for c in r.get('ops') or []:
        _walk_regex(c, f)
    if r.get('op') is not None:
        _walk_regex(r['op'], f)


class Truth:
    """what the command-line front end says about one text"""

    def __init__(self, text, gen):
        self.text = text
        self.doc = k6.Doc(text)
        self.gen = gen
        self.dump = gen.get('dump') if isinstance(gen, dict) else None
        self.front_ok = isinstance(gen, dict) and 'diags' in gen
        self.accepted = bool(self.front_ok and gen.get('accepted') and self.dump)
        self.nodes = []      # (start, end, id, kind, obj)
        self.rules_by_name = collections.defaultdict(list)
        self.tokens_by_name = collections.defaultdict(list)
        self.tokens_by_symbol = collections.defaultdict(list)
        self.names = []      # regex name / symbol nodes
        if self.dump:
            for t in self.dump['tokens']:
                self.nodes.append((t['span'][0], t['span'][1], t['id'], 'tokendecl', t))
                if t.get('name'):
                    self.tokens_by_name[t['name']].append(t)
                if t.get('symbol'):
                    self.tokens_by_symbol[t['symbol']].append(t)
            for r in self.dump['rules']:
                self.nodes.append((r['span'][0], r['span'][1], r['id'], 'ruledecl', r))
                if r.get('name'):
                    self.rules_by_name[r['name']].append(r)

                def f(x, r=r):
                    x['_rule'] = r.get('name')
                    self.nodes.append((x['span'][0], x['span'][1], x['id'], x['k'], x))
                    if x['k'] in ('name', 'symbol') and x.get('value'):
                        self.names.append(x)
                _walk_regex(r.get('regex'), f)
        self.span_index = collections.defaultdict(list)
        for n in self.nodes:
            self.span_index[(n[0], n[1])].append(n)

    def smallest(self, off):
        best = None
        for n in self.nodes:
            if n[0] <= off < n[1]:
                if best is None or (n[1] - n[0], -n[2]) < (best[1] - best[0], -best[2]):
                    best = n
        return best

    def decl_of(self, x):
        """declarations a name / symbol node can bind to, by name"""
        v = x['value']
        if x['k'] == 'symbol':
            return [('tokendecl', t) for t in self.tokens_by_symbol.get(v, [])]
        if v[:1].islower():
            return [('ruledecl', r) for r in self.rules_by_name.get(v, [])]
        return [('tokendecl', t) for t in self.tokens_by_name.get(v, [])]

    def sets_of(self, node_id):
        return (self.dump['sema']['sets'].get(str(node_id)) or {}) if self.dump else {}


class World:
    """caches of ground truth; scratch files under `work`"""

    def __init__(self, work):
        self.work = work
        self.truth = {}
        self.fmt = {}
        self.n_files = 0
        self.docs_dir = os.path.join(work, 'docs')
        os.makedirs(self.docs_dir, exist_ok=True)
        os.makedirs(os.path.join(work, 'gt'), exist_ok=True)
        os.makedirs(os.path.join(work, 'fmt'), exist_ok=True)
        os.makedirs(os.path.join(work, 'err'), exist_ok=True)
        # go-to-definition of predicates and actions looks into parser.rs next to the grammar
        self.parser_rs = os.path.join(self.docs_dir, 'parser.rs')
        # (multi-byte characters in front of the functions: the returned column must be in UTF-16 units)
        self.parser_text = ('// \u00e9\U0001F600\nimpl PredicatesAndActions for Parser<\'_> {\n'
                            + ''.join('    /* \U0001F600 */ fn predicate_%s_%d(&self) -> bool { true }\n    /* \u00e9 */ fn action_%s_%d(&mut self, diags: &mut Vec<Diagnostic>) {}\n' % (r, n, r, n)
                                      for r in ['s', 'r1', 'r2', 'r3', 'r4', 'r5', 'a'] for n in range(1, 13)) + '}\n')
        open(self.parser_rs, 'w', encoding='utf-8').write(self.parser_text)
        self.parser_doc = k6.Doc(self.parser_text)

    def _new_file(self, sub, text):
        self.n_files += 1
        p = os.path.join(self.work, sub, '%07d.llw' % self.n_files)
        with open(p, 'wb') as f:
            f.write(text.encode('utf-8'))
        return p

    def need_truth(self, texts):
        todo = sorted({t for t in texts if t not in self.truth})
        if not todo:
            return
        paths = [self._new_file('gt', t) for t in todo]
        chunk = max(1, min(60, (len(paths) + WORKERS - 1) // WORKERS))
        chunks = [paths[i:i + chunk] for i in range(0, len(paths), chunk)]
        with ThreadPoolExecutor(max_workers=WORKERS) as ex:
            parts = list(ex.map(lambda c: _gen_batch(c, os.path.join(self.work, 'gt', 'out')), chunks))
        res = [r for p in parts for r in p]
        for t, r, p in zip(todo, res, paths):
            self.truth[t] = Truth(t, r)
            try:
                os.remove(p)
            except OSError:
                pass

    def _fmt_one(self, text):
        p = self._new_file('fmt', text)
        try:
            r = subprocess.run([lv.LLW_BIN, '-f', p], stdout=subprocess.PIPE, stderr=subprocess.PIPE, timeout=60)
            out = open(p, 'rb').read().decode('utf-8', 'replace') if r.returncode == 0 else None
            return {'rc': r.returncode, 'out': out, 'stderr': r.stderr.decode('utf-8', 'replace')[-400:]}
        except subprocess.TimeoutExpired:
            return {'rc': 'timeout', 'out': None, 'stderr': ''}
        finally:
            try:
                os.remove(p)
            except OSError:
                pass

    def need_fmt(self, texts):
        todo = sorted({t for t in texts if t not in self.fmt})
        if not todo:
            return
        with ThreadPoolExecutor(max_workers=WORKERS) as ex:
            res = list(ex.map(self._fmt_one, todo))
        for t, r in zip(todo, res):
            self.fmt[t] = r

    def prepare(self, histories):
        texts, ftexts = set(), set()
        for h in histories:
            ta = k6.texts_at(h)
            for m, t in zip(h, ta):
                if m['op'] in ('open', 'change'):
                    texts.add(m['text'])
                if m['op'] == 'formatting' and t is not None:
                    ftexts.add(t)
        self.need_truth(texts)
        self.need_fmt(ftexts)


# ---------------------------------------------------------------- expectations

def canon(x):
    return json.dumps(x, sort_keys=True, ensure_ascii=False)


def norm_diag(d):
    d = dict(d)
    if not d.get('relatedInformation'):
        d.pop('relatedInformation', None)
    for k in [k for k, v in d.items() if v is None]:
        d.pop(k)
    return d


def expected_diags(tr, uri):
    """src/ide/mod.rs to_lsp_diag + related_as_hints on the command-line diagnostics; None if a span
    is not convertible (then the CLI side is itself broken)"""
    doc = tr.doc
    out, hints = [], []
    for d in tr.gen['diags']:
        labels = d['labels']
        if labels:
            rng = doc.span_to_range(labels[0]['start'], labels[0]['end'])
            if rng is None:
                return None
        else:
            rng = {'start': {'line': 0, 'character': 0}, 'end': {'line': 0, 'character': 0}}
        msg = d['message']
        for l in labels:
            if l['primary'] and l['message']:
                msg = msg + ' ' + l['message']
                break
        related = []
        for l in labels:
            if not l['primary']:
                r = doc.span_to_range(l['start'], l['end'])
                if r is None:
                    return None
                related.append({'location': {'uri': uri, 'range': r}, 'message': l['message']})
        e = {'range': rng, 'severity': {'error': 1, 'warning': 2}.get(d['severity'], 4), 'message': msg}
        if related:
            e['relatedInformation'] = related
        if d['code']:
            e['code'] = d['code']
        out.append(e)
        for r in related:
            h = {'range': r['location']['range'], 'severity': 4, 'message': r['message']}
            if d['code']:
                h['code'] = d['code']
            hints.append(h)
    return out + hints


HOVER_RE = re.compile(r'\*\*First:\*\* \{(.*?)\}\n\n\*\*Follow:\*\* \{(.*?)\}\n\n\*\*Predict:\*\* \{(.*?)\}(?:\n\n\*\*Recovery:\*\* \{(.*?)\})?\Z', re.S)


def parse_set(s):
    return set() if s is None or s == '' else set(s.split(', '))


def shown(names):
    """hover.rs filter_part_eof"""
    return {n for n in (names or []) if n == 'EOF' or not n.startswith('EOF')}


def find_ranges(v, uri, out):
    """collect (uri, range) for everything range-shaped in an answer"""
    if isinstance(v, dict):
        if 'start' in v and 'end' in v and isinstance(v['start'], dict) and isinstance(v['end'], dict) and 'line' in v['start']:
            out.append((uri, v))
            return
        u = v.get('uri', uri) if isinstance(v.get('uri'), str) else uri
        for k, x in v.items():
            find_ranges(x, u, out)
    elif isinstance(v, list):
        for x in v:
            find_ranges(x, uri, out)


def loc_of(msg):
    """'<message> @ /path/to/file.rs:12' -> 'dir/file.rs:12'"""
    if not msg:
        return '?'
    if ' @ ' in msg:
        p = msg.rsplit(' @ ', 1)[1]
        parts = p.split('/')
        return '/'.join(parts[-2:])
    return msg[:60]


class Failure:
    def __init__(self, index, oracle, sig, what, observed=None):
        self.index = index
        self.oracle = oracle
        self.sig = sig
        self.what = what
        self.observed = observed
        self.known = None
        self.history = None
        self.where = 'in-process'

    def record(self):
        h = [k6.wire(m) for m in self.history]
        return {'history': h, 'failing_message_index': self.index, 'failing_message': h[self.index] if 0 <= self.index < len(h) else None,
                'oracle': self.oracle, 'signature': self.sig, 'what': self.what, 'observed': self.observed, 'where': self.where}


class Judge:
    def __init__(self, world, stats=None):
        self.w = world
        self.stats = stats if stats is not None else collections.Counter()

    # -- one history, answers of the in-process driver
    def judge(self, h, ans):
        """returns (failures, n_judged_messages); the analysis of a history ends at its first crash"""
        fails = []
        ta = k6.texts_at(h)
        st = self.stats
        for i, m in enumerate(h):
            if i >= len(ans):
                fails.append(Failure(i, 'crash', 'missing_answer', 'the driver gave no answer line for this message'))
                return fails, i
            a = ans[i]
            op = m['op']
            if 'bad_input' in a or 'garbled' in a:
                raise RuntimeError('harness rejected message %r: %r' % (k6.wire(m), a))
            if 'crash' in a:
                fails.append(Failure(i, 'crash', 'abort', 'the process serving the session died (exit %r) at %s: %s' % (a['crash'], op, a.get('stderr', '')[-200:].strip()), a))
                return fails, i
            if a.get('hang'):
                fails.append(Failure(i, 'hang', 'hang', '%s did not return within the time limit' % op, a))
                return fails, i
            if a.get('panic'):
                fails.append(Failure(i, 'panic', 'panic@' + loc_of(a.get('msg')), 'the server main thread panics at %s: %s' % (op, a.get('msg')), a))
                return fails, i
            if a.get('dead_thread'):
                fails.append(Failure(i, 'dead_thread', 'dead_thread@' + loc_of(a.get('thread_msg')),
                                     'the analysis thread of the document panics while serving %s (the request is answered %s; the next message for the document kills the server): %s'
                                     % (op, canon(a.get('result'))[:80], a.get('thread_msg')), a))
                return fails, i
            res = a.get('result')
            st['answers_%s_%s' % (op, 'null' if res is None else ('empty' if res == [] else 'nonnull'))] += 1
            if op == 'close':
                continue
            tr = self.w.truth[ta[i]]
            f = None
            if op in ('open', 'change'):
                f = self.check_diags(i, m, tr, res)
            else:
                f = self.check_request(i, m, tr, res)
            if f is None:
                f = self.check_ranges(i, m, tr, res)
            if f is not None:
                fails.append(f)
        return fails, len(h)

    def check_diags(self, i, m, tr, res):
        st = self.stats
        if not tr.front_ok:
            st['diag_cli_front_end_failed'] += 1
            return Failure(i, 'cli_front_end', 'cli_front_end_failed', 'the command-line front end itself fails on this text (%s) while the server answers' % canon(tr.gen)[:200], res)
        exp = expected_diags(tr, m['uri'])
        if exp is None:
            return Failure(i, 'diagnostics', 'cli_span_off_boundary', 'a command-line diagnostic has a span that is not on a character boundary', tr.gen['diags'])
        if not isinstance(res, list):
            return Failure(i, 'diagnostics', 'diag_shape', 'published diagnostics are not a list', res)
        got = sorted(canon(norm_diag(d)) for d in res)
        want = sorted(canon(norm_diag(d)) for d in exp)
        st['diag_compared'] += 1
        if exp:
            st['diag_compared_nonempty'] += 1
        if got != want:
            only_got = [json.loads(x) for x in got if x not in want][:3]
            only_want = [json.loads(x) for x in want if x not in got][:3]
            return Failure(i, 'diagnostics', 'diag_mismatch', 'published diagnostics differ from the command-line check on the latest text: only published %s; only command line %s'
                           % (canon(only_got)[:400], canon(only_want)[:400]), {'published': res, 'expected': exp})
        return None

    def check_ranges(self, i, m, tr, res):
        rs = []
        find_ranges(res, m['uri'], rs)
        for (u, r) in rs:
            self.stats['ranges_checked'] += 1
            if u == m['uri']:
                doc = tr.doc
            elif u == 'file://' + self.w.parser_rs:
                doc = self.w.parser_doc
            else:
                return Failure(i, 'range', 'foreign_uri', 'answer points into an unknown document %s' % u, res)
            p = doc.range_problem(r)
            if p is not None:
                return Failure(i, 'range', 'range_outside', 'range outside the document in the answer to %s: %s' % (m['op'], p), res)
        return None

    def check_request(self, i, m, tr, res):
        op = m['op']
        doc = tr.doc
        st = self.stats
        if op == 'formatting':
            ft = self.w.fmt.get(tr.text)
            if res is None:
                st['fmt_null'] += 1
                return None
            if not isinstance(res, list):
                return Failure(i, 'formatting', 'fmt_shape', 'formatting answer is not a list of edits', res)
            for e in res:
                p = doc.range_problem(e.get('range'))
                if p is not None:
                    return Failure(i, 'range', 'range_outside', 'formatting edit outside the document: ' + p, res)
            new = doc.apply_edits(res)
            if ft is None or ft['rc'] != 0:
                st['fmt_cli_failed'] += 1
                return Failure(i, 'formatting', 'fmt_cli_failed', 'the server formats a text on which `llw -f` fails (%r)' % (ft,), res)
            st['fmt_compared'] += 1
            if new != ft['out']:
                return Failure(i, 'formatting', 'fmt_mismatch', 'formatting edits applied to the text differ from `llw -f`: %r vs %r' % (new[:200], ft['out'][:200]),
                               {'edits': res, 'applied': new, 'llw_f': ft['out']})
            return None
        pc = doc.pos_class(m['line'], m['character'])
        off, exact = doc.pos_to_byte(m['line'], m['character'])
        if pc is not None:
            # a position outside the text: the protocol clamps it; the oracles below use the clamped offset
            st['requests_at_clamped_positions_answered'] += 1
        node = tr.smallest(off) if tr.dump else None
        if op == 'hover':
            return self.check_hover(i, m, tr, res, node, pc)
        if op == 'definition':
            return self.check_definition(i, m, tr, res, node, pc, off)
        if op == 'references':
            return self.check_references(i, m, tr, res, node, pc)
        if op == 'completion':
            if res is None:
                return None
            items = res if isinstance(res, list) else res.get('items') if isinstance(res, dict) else None
            if items is None or any(not isinstance(it, dict) or not isinstance(it.get('label'), str) for it in items):
                return Failure(i, 'completion', 'completion_shape', 'completion answer is not a list of items with labels', res)
            return None
        return None

    def check_hover(self, i, m, tr, res, node, pc):
        st = self.stats
        doc = tr.doc
        if res is not None:
            try:
                val = res['contents']['value']
                rng = res['range']
            except Exception:
                return Failure(i, 'hover', 'hover_shape', 'hover answer has no markdown contents / range', res)
            p = doc.range_problem(rng)
            if p is not None:
                return Failure(i, 'range', 'range_outside', 'hover range outside the document: ' + p, res)
            k = val.rfind('**First:** ')
            mm = HOVER_RE.match(val[k:]) if k >= 0 else None
            if mm is None:
                return Failure(i, 'hover', 'hover_format', 'hover text does not show the analysis sets: %r' % val[:200], res)
            got = {'first': parse_set(mm.group(1)), 'follow': parse_set(mm.group(2)), 'predict': parse_set(mm.group(3))}
            if mm.group(4) is not None:
                got['recovery'] = parse_set(mm.group(4))
            # which node is it? the one whose span is the hover range
            cands = []
            if tr.dump:
                for n in tr.nodes:
                    if n[3] != 'tokendecl' and doc.span_to_range(n[0], n[1]) == rng:
                        cands.append(n)
            if not cands:
                st['hover_node_not_in_typed_view'] += 1
                if tr.accepted:
                    return Failure(i, 'hover', 'hover_node', 'hover range %s is not the range of any rule or regex node of an accepted grammar' % canon(rng), res)
                return None
            ok = False
            exp_show = None
            for n in cands:
                sid = n[2]
                if n[3] == 'ruledecl':
                    if not n[4].get('regex'):
                        continue
                    sid = n[4]['regex']['id']
                s = tr.sets_of(sid)
                exp = {'first': shown(s.get('first')), 'follow': shown(s.get('follow')), 'predict': shown(s.get('predict'))}
                if n[3] in ('star', 'plus', 'opt'):
                    exp['recovery'] = shown(s.get('recovery'))
                exp_show = exp
                if exp == got:
                    ok = True
                    break
            st['hover_sets_compared'] += 1
            if got['first'] or got['follow']:
                st['hover_sets_compared_nonempty'] += 1
            if not ok:
                return Failure(i, 'hover', 'hover_sets', 'hover shows %s but the analysis sets of the node at %s are %s'
                               % (canon({k: sorted(v) for k, v in got.items()}), canon(rng), canon({k: sorted(v) for k, v in (exp_show or {}).items()})), res)
        if tr.accepted and pc is None:
            # the node under the cursor is known exactly
            want = node is not None and node[3] != 'tokendecl' and not (node[3] == 'ruledecl' and not node[4].get('regex'))
            st['hover_presence_checked'] += 1
            if want and res is None:
                return Failure(i, 'hover', 'hover_missing', 'no hover on the %s node at %s of an accepted grammar' % (node[3], canon(doc.span_to_range(node[0], node[1]))), res)
            if res is not None and not want:
                return Failure(i, 'hover', 'hover_unexpected', 'hover %s where no rule or regex node is under the cursor' % canon(res['range']), res)
            if res is not None and res['range'] != doc.span_to_range(node[0], node[1]):
                return Failure(i, 'hover', 'hover_wrong_node', 'hover is about %s but the innermost node under the cursor is %s %s'
                               % (canon(res['range']), node[3], canon(doc.span_to_range(node[0], node[1]))), res)
        return None

    def _ident_at(self, doc, m):
        ci, _ = doc.pos_to_cidx(m['line'], m['character'])
        for mm in k6.IDENT_RE.finditer(doc.text):
            if mm.start() <= ci < mm.end():
                return mm.group(0)
            if mm.start() > ci:
                break
        return None

    DECL_RE = re.compile(r"\s*([A-Za-z_][A-Za-z0-9_]*)\s*\^?\s*(?:=\s*('(?:\\.|[^'\\\n])*'))?")

    def check_definition(self, i, m, tr, res, node, pc, off):
        st = self.stats
        doc = tr.doc
        if res is not None:
            if not isinstance(res, dict) or 'uri' not in res or 'range' not in res:
                return Failure(i, 'definition', 'def_shape', 'definition answer is not a location', res)
            if res['uri'] == 'file://' + self.w.parser_rs:
                # predicate / action: the implementation in parser.rs
                p = self.w.parser_doc.range_problem(res['range'])
                if p is not None:
                    return Failure(i, 'range', 'range_outside', 'definition range outside parser.rs: ' + p, res)
                a, _ = self.w.parser_doc.pos_to_cidx(res['range']['start']['line'], res['range']['start']['character'])
                tail = self.w.parser_text[a:a + 40]
                st['def_parser_rs'] += 1
                if node is not None and node[3] in ('pred', 'action') and node[4].get('value'):
                    want = 'fn %s_%s_%s(' % ('predicate' if node[3] == 'pred' else 'action', node[4]['_rule'], node[4]['value'][1:])
                    if not tail.startswith(want):
                        return Failure(i, 'definition', 'def_parser_rs_wrong', 'definition of %s in rule %s points at %r' % (node[4]['value'], node[4]['_rule'], tail), res)
                elif not tail.startswith('fn '):
                    return Failure(i, 'definition', 'def_parser_rs_wrong', 'definition in parser.rs points at %r' % tail, res)
                return None
            if res['uri'] != m['uri']:
                return Failure(i, 'definition', 'foreign_uri', 'definition in another document %s' % res['uri'], res)
            p = doc.range_problem(res['range'])
            if p is not None:
                return Failure(i, 'range', 'range_outside', 'definition range outside the document: ' + p, res)
            ident = self._ident_at(doc, m)
            target = doc.range_text(res['range'])
            dm = self.DECL_RE.match(target)
            st['def_name_checked'] += 1
            if ident is None or dm is None or ident not in (dm.group(1), dm.group(2)):
                return Failure(i, 'definition', 'def_wrong_name', 'definition of %r points at %r, which does not declare that name' % (ident, target[:60]), res)
        if tr.accepted and pc is None:
            st['def_exact_checked'] += 1
            want = None
            if node is not None and node[3] in ('name', 'symbol') and node[4].get('value'):
                ds = tr.decl_of(node[4])
                if len(ds) != 1:
                    st['def_ambiguous_by_name'] += 1
                    return None
                want = {'uri': m['uri'], 'range': doc.span_to_range(ds[0][1]['span'][0], ds[0][1]['span'][1])}
                st['def_exact_on_reference'] += 1
            elif node is not None and node[3] in ('pred', 'action'):
                return None
            if res != want:
                return Failure(i, 'definition', 'def_wrong', 'definition at %d:%d (node %s) is %s, by the names in the text it is %s'
                               % (m['line'], m['character'], node[3] if node else None, canon(res), canon(want)), res)
        return None

    def check_references(self, i, m, tr, res, node, pc):
        st = self.stats
        doc = tr.doc
        if not isinstance(res, list):
            return Failure(i, 'references', 'refs_shape', 'references answer is not a list', res)
        texts = set()
        for r in res:
            if not isinstance(r, dict) or r.get('uri') != m['uri'] or 'range' not in r:
                return Failure(i, 'references', 'foreign_uri', 'reference in another document / malformed: %s' % canon(r), res)
            p = doc.range_problem(r['range'])
            if p is not None:
                return Failure(i, 'range', 'range_outside', 'reference range outside the document: ' + p, res)
            texts.add(doc.range_text(r['range']))
        if not m.get('with_def') and len(texts) > 2:
            return Failure(i, 'references', 'refs_names', 'references without the declaration carry more than a name and a symbol: %s' % sorted(texts)[:5], res)
        if tr.accepted and pc is None:
            st['refs_exact_checked'] += 1
            wd = bool(m.get('with_def'))

            def rng(s):
                return doc.span_to_range(s[0], s[1])
            if node is None:
                # a declaration list (start, skip, right, part, token list) or nothing
                if (not wd and res) or len(res) > 1:
                    return Failure(i, 'references', 'refs_wrong', 'references outside every rule and token declaration: %s' % canon(res)[:300], res)
                return None
            if node[3] == 'ruledecl':
                want = [rng(x['span']) for x in tr.names if x['k'] == 'name' and x['value'] == node[4].get('name')]
                st['refs_exact_on_declaration'] += 1
            elif node[3] == 'tokendecl':
                want = [rng(x['span']) for x in tr.names if (x['k'] == 'name' and x['value'] == node[4].get('name'))
                        or (x['k'] == 'symbol' and node[4].get('symbol') and x['value'] == node[4].get('symbol'))]
                st['refs_exact_on_declaration'] += 1
            else:
                want = []
            if wd:
                want = want + [rng((node[0], node[1]))]
            got = sorted(canon(r['range']) for r in res)
            if got != sorted(canon(r) for r in want):
                return Failure(i, 'references', 'refs_wrong', 'references at %d:%d (%s node, with_def=%s) are %s; by the names in the text they are %s'
                               % (m['line'], m['character'], node[3], wd, canon([r['range'] for r in res])[:400], canon(want)[:400]), res)
            if wd and node[3] in ('name', 'symbol') and canon(rng((node[0], node[1]))) not in got:
                return Failure(i, 'references', 'refs_wrong', 'references with declaration do not contain the occurrence under the cursor', res)
        return None


# ---------------------------------------------------------------- known findings

def d11_subclass(f):
    m = f.history[f.index]
    if f.oracle != 'dead_thread' or m['op'] not in k6.POSITIONAL_OPS:
        return None
    t = k6.texts_at(f.history)[f.index]
    if t is None:
        return None
    return k6.Doc(t).pos_class(m['line'], m['character'])


def cls_position(f, world):
    return d11_subclass(f)


def cls_formatter(f, world):
    """the formatting request kills the analysis thread on a text on which `llw -f` itself panics"""
    m = f.history[f.index]
    if f.oracle != 'dead_thread' or m['op'] != 'formatting':
        return None
    t = k6.texts_at(f.history)[f.index]
    world.need_fmt([t])
    return 'cli_formatter_panics' if world.fmt[t]['rc'] not in (0, 1) else None


def cls_deep(f, world):
    """the process aborts (stack overflow) on a text nested deeper than 100 brackets"""
    if f.oracle != 'crash':
        return None
    t = k6.texts_at(f.history)[f.index]
    return 'deep' if t is not None and k6.nesting_depth(t) >= 100 else None


KNOWN_CLASSES = {
    'lsp_position_out_of_range': cls_position,
    'lsp_formatter_panics_on_text': cls_formatter,
    'lsp_deep_nesting_stack_overflow': cls_deep,
}
WITNESS_KEYS = {'past_line_end': 'witness', 'past_last_line': 'witness_past_last_line', 'mid_surrogate': 'witness_mid_surrogate'}


class KnownLsp:
    def __init__(self, world, judge, pid='C20'):
        self.world = world
        self.judge = judge
        self.entries = [e for e in lv.known_findings() if pid in e.get('properties', []) and e.get('class') in KNOWN_CLASSES]
        self.still = {}     # (id, witness key) -> description of how the witness fails now
        self.hits = collections.Counter()
        self.lines = []

    def rerun_witnesses(self):
        for e in self.entries:
            for key in [k for k in e if k.startswith('witness')]:
                h = e[key].get('history')
                if not h or not k6.conformant(h):
                    continue
                self.world.prepare([h])
                ans = k6.run_inproc([h])[0]
                fails, _ = Judge(self.world).judge(h, ans)
                so = k6.run_stdio(h, pace='sync', stderr_path=os.path.join(self.world.work, 'err', 'witness_%s_%s.txt' % (e['id'], key)))
                if fails and fails[0].oracle in CRASH_ORACLES:
                    fails[0].history = h
                    pred = KNOWN_CLASSES[e['class']](fails[0], self.world)
                    if pred is not None:
                        self.still[(e['id'], key)] = (fails[0], so)
            live = [(k, v) for (i, k), v in sorted(self.still.items()) if i == e['id']]
            if live:
                k, (f, so) = live[0]
                self.lines.append('%s: %s; witness history %s: %s; lelwel-ls over stdio: %s (exit status %r)%s'
                                  % (e['id'], e['class'], canon([k6.wire(m) for m in f.history]), f.what,
                                     'server dies' if so['died'] else 'server survives', so['exit'],
                                     '; witnesses still failing: %s' % ', '.join(k for k, _ in live)))

    def match(self, f):
        """id of the known finding this failure belongs to, or None"""
        for e in self.entries:
            sub = KNOWN_CLASSES[e['class']](f, self.world)
            if sub is None:
                continue
            key = WITNESS_KEYS.get(sub, 'witness')
            if key not in e:
                key = 'witness'
            if (e['id'], key) in self.still:
                return e['id'], sub
        return None


# ---------------------------------------------------------------- shrinking

def drop_candidates(h):
    for i in range(len(h) - 1, -1, -1):
        c = h[:i] + h[i + 1:]
        if c and k6.conformant(c):
            yield c
    # a whole document at once
    for u in sorted({m['uri'] for m in h}):
        c = [m for m in h if m['uri'] != u]
        if c and len(c) < len(h) - 1 and k6.conformant(c):
            yield c
    # open T0 ... change T1  ->  open T1 (the messages in between go)
    for i, m in enumerate(h):
        if m['op'] == 'change':
            for j in range(i - 1, -1, -1):
                if h[j]['uri'] == m['uri'] and h[j]['op'] in ('open', 'change'):
                    c = [dict(x) for x in h[:j + 1]] + [x for x in h[j + 1:i] if x['uri'] != m['uri']] + h[i + 1:]
                    c[j]['text'] = m['text']
                    if '_tk' in m:
                        c[j]['_tk'] = m['_tk']
                    if k6.conformant(c):
                        yield c
                    break


def _users(h, i):
    """indices of the messages served from the text that message i carries"""
    out = []
    for j in range(i + 1, len(h)):
        if h[j]['uri'] == h[i]['uri']:
            if h[j]['op'] in ('open', 'change', 'close'):
                break
            out.append(j)
    return out


def _with_slice_removed(h, i, users, a, b):
    """history with text[a:b] (code points) of message i removed; positions that lie inside the text move with it"""
    t = h[i]['text']
    doc = k6.Doc(t)
    nt = t[:a] + t[b:]
    ndoc = k6.Doc(nt)
    c = [dict(x) for x in h]
    c[i]['text'] = nt
    for u in users:
        m = c[u]
        if m['op'] not in k6.POSITIONAL_OPS or doc.pos_class(m['line'], m['character']) is not None:
            continue
        ci, _ = doc.pos_to_cidx(m['line'], m['character'])
        if ci >= b:
            ci -= b - a
        elif ci > a:
            ci = a
        p = ndoc.byte_to_pos(len(nt[:ci].encode('utf-8')))
        m['line'], m['character'] = p
    return c


def text_candidates(h):
    """shorter texts: runs of tokens removed (halves, quarters, ... single tokens)"""
    for i in range(len(h) - 1, -1, -1):
        m = h[i]
        if m['op'] not in ('open', 'change') or not m['text']:
            continue
        t = m['text']
        users = _users(h, i)
        if not users:
            yield _with_slice_removed(h, i, users, 0, len(t))
        levels = [[(x.start(), x.end()) for x in k6.TOKEN_RE.finditer(t)]]
        if len(t) <= 200:
            levels.append([(j, j + 1) for j in range(len(t))])
        for spans in levels:
            n = len(spans)
            size = n
            while size >= 1:
                for s in range(0, n, size):
                    a, b = spans[s][0], spans[min(n, s + size) - 1][1]
                    if b > a:
                        yield _with_slice_removed(h, i, users, a, b)
                if size == 1:
                    break
                size = max(1, size // 2)
                if n > 64 and size < n // 16:
                    break


def shrink(f, evaluate_many, budget=160, batch=16):
    """smallest history found (bounded effort) on which a failure with f's signature is still reported.
    evaluate_many: list of histories -> list of (first Failure | None)"""
    best = f
    runs = 0
    progress = True
    while progress and runs < budget:
        progress = False
        for gen in (drop_candidates, text_candidates):
            it = gen(best.history)
            while not progress and runs < budget:
                cands = []
                try:
                    for c in it:
                        cands.append(c)
                        if len(cands) >= batch:
                            break
                except Exception:
                    pass
                if not cands:
                    break
                runs += len(cands)
                try:
                    res = evaluate_many(cands)
                except Exception:
                    break
                for g in res:
                    if g is not None and g.sig == best.sig and g.oracle == best.oracle and g.known == best.known:
                        best = g
                        progress = True
                        break
            if progress:
                break
    return best, runs


# ---------------------------------------------------------------- stdio comparison

def compare_stdio(h, ans, so, stats):
    """in-process answers vs one stdio session; None when they agree.

    Sessions that ide::Cache survives in-process are compared strictly.  When the server dies, two races of
    the server itself are tolerated unless the client waited for every answer (pace 'sync'): answers that were
    queued but not yet written when the main thread panicked are lost, and a message that follows a dead
    analysis thread within microseconds may still be answered null (is_finished() not yet true)."""
    death = None
    for i, a in enumerate(ans):
        if a.get('panic') or 'crash' in a or a.get('hang'):
            death = i
            break
    n = len(h) if death is None else death
    strict = death is None or so.get('pace') == 'sync'
    if so.get('timeout'):
        return 'a message got no answer within the time limit over stdio (answers: %s)' % canon(so['answers'])[:300]
    if so.get('sync_full') is False:
        return 'the server does not declare full text synchronisation'
    lost = False
    for i in range(n):
        a, s = ans[i], so['answers'][i]
        if h[i]['op'] == 'close':
            continue
        if 'result' not in s:
            if strict or not so['died']:
                return 'message %d (%s) is answered in-process but not by the server binary (%s; server %s, exit status %r; stderr: %s)' \
                    % (i, h[i]['op'], canon(s), 'died' if so['died'] else 'alive', so['exit'], so['stderr'][-300:])
            lost = True
            continue
        if lost:
            return 'message %d (%s) is answered by the server binary after an earlier answer was lost' % (i, h[i]['op'])
        if s['result'] != a.get('result'):
            return 'message %d (%s): the server binary answers %s, ide::Cache in-process answers %s' % (i, h[i]['op'], canon(s['result'])[:300], canon(a.get('result'))[:300])
        if h[i]['op'] in ('open', 'change') and s.get('uri') != h[i]['uri']:
            return 'message %d: diagnostics published for %r instead of %r' % (i, s.get('uri'), h[i]['uri'])
    if lost:
        stats['stdio_answers_lost_at_server_death'] += 1
    if death is None:
        if so['died'] or not so['shutdown_ok'] or so['exit'] != 0:
            return 'the server binary does not survive a session that ide::Cache survives in-process: died=%s shutdown_ok=%s exit=%r stderr: %s' \
                % (so['died'], so['shutdown_ok'], so['exit'], so['stderr'][-400:])
    else:
        late = [i for i in range(death, len(h)) if 'result' in so['answers'][i]]
        if strict:
            if not so['died']:
                return 'ide::Cache panics in-process at message %d but the server binary survives the session' % death
            if late:
                return 'the server binary answers message %d after the point (%d) where ide::Cache panics in-process' % (late[0], death)
        else:
            if not so['died'] or late:
                stats['stdio_death_delayed_by_race'] += 1
    if so['extra']:
        return 'unexpected messages from the server: %s' % canon(so['extra'])[:300]
    return None


def stdio_sessions(world, jobs, timeout=10.0):
    """jobs: list of (history, pace, sleeps); parallel sessions"""
    def one(k):
        h, pace, sleeps = jobs[k]
        return k6.run_stdio(h, pace=pace, sleeps=sleeps, timeout=timeout, stderr_path=os.path.join(world.work, 'err', 's%05d.txt' % k))
    with ThreadPoolExecutor(max_workers=WORKERS) as ex:
        return list(ex.map(one, range(len(jobs))))


# ---------------------------------------------------------------- the check

def check_C20(work, args):
    ck = lv.Check('C20', 'proof')
    quick = ck.tier == 'quick'
    t_build = lv.build_impl(bins=True)
    rng = ck.rng
    world = World(work)
    stats = collections.Counter()
    judge = Judge(world, stats)
    if '--replay' in args:
        return replay(ck, world, args[args.index('--replay') + 1])

    # ---- the Coq model of the document store and of the position conversion (coq/Model/Lsp.v, Props/C20.v):
    # proof step, then the correspondence of the model with the real code (tools/k6_lspmodel.py)
    import checks
    import k6_lspmodel
    t0 = time.time()
    pst = checks.proof_step(ck, 'C20')
    dev_note = None
    if not pst['build_ok']:
        # the whole development does not build (some other property's file): C20's obligations are Props/C20.v and
        # what it depends on (Model/Lsp.v, Proofs/LspPos.v, Proofs/LspProofs.v) - build exactly those
        dev_note = 'the full Coq development does not build at the moment (%s); built the dependencies of Props/C20.v only' % pst['build_msg'][-300:].strip()
        with lv.Lock('coq'):
            r = lv.sh(['timeout', '1200', 'make', 'Model/Lsp.vo', 'Proofs/LspPos.vo', 'Proofs/LspProofs.vo', 'Extract/ExtractLsp.vo'], cwd=lv.COQ, check=False, timeout=1300)
        if r.returncode == 0:
            okp, thms, rep = lv.check_props('C20')
            pst = {'build_ok': True, 'build_msg': '', 'theorems': thms, 'props_ok': okp, 'audit': lv.audit_sources(), 'props_report': '' if okp else rep}
    model_findings, model_cov = [], {}
    try:
        model_bad, model_findings, model_cov = k6_lspmodel.run(ck, work, realistic=list(k6.FRAGMENTS) + list(k6.FIXED_SWEEPS))
    except Exception as e:
        model_bad = [{'kind': 'correspondence_did_not_run', 'what': repr(e)[:1500]}]
    if checks.proof_broken(pst):
        ck.violation('proof: ' + checks.proof_summary(pst), {'broken': 'coq/Props/C20.v', 'report': checks.proof_summary(pst)}, no_input=True)
    for b in model_bad[:3]:
        if b.get('property_fails'):
            ck.violation('[lsp_model] the position conversion of the real code leaves the document: %s' % canon(b)[:1200], b)
        else:
            ck.violation('[lsp_model] the Coq model of the language server (coq/Model/Lsp.v) and the real code disagree (%s): %s'
                         % (b.get('kind'), canon(b)[:1200]), b, no_input=True)
    t_model = time.time() - t0

    n_random = 200 if quick else 5000
    n_stdio_h = 15 if quick else 100
    paces = ['sync', 'burst'] if quick else ['sync', 'burst', 'paced']
    n_sweep_texts = 4 if quick else 40
    maxlen = 12 if quick else 24

    tg = k6.TextGen(rng)
    hg = k6.HistoryGen(rng, tg, world.docs_dir, maxlen=maxlen, maxdocs=3)

    # ---- histories
    fam = []  # (family, history)
    for _ in range(n_random):
        fam.append(('random', hg.history()))
    small = [t for t in k6.FRAGMENTS if 0 < k6.utf16_len(t) <= 60]
    sweep_texts = []
    for j in range(n_sweep_texts):
        r = j % 4
        if r == 0:
            sweep_texts.append(('fragment', rng.choice(small)))
        elif r == 1:
            t = tg.decorate(k6_small_grammar(rng, tg))
            sweep_texts.append(('unicode', t))
        elif r == 2:
            sweep_texts.append(('valid_gen', k6_small_grammar(rng, tg)))
        else:
            t = k6_small_grammar(rng, tg)
            sweep_texts.append(('crlf', tg.decorate(t).replace('\n', '\r\n')) if rng.random() < 0.5 else ('mutant', tg.mutate(t, 1)))
    for tk, t in [('fragment', t) for t in k6.FIXED_SWEEPS] + sweep_texts:
        for h in hg.sweeps(t, tk):
            fam.append(('sweep', h))
    # definition of a predicate and of an action: looked up in parser.rs next to the grammar
    u = hg.uris[0]
    t = 'token A B;\nstart s;\ns: (?1 A | B) #1;\n'
    fam.append(('identifiers', [{'op': 'open', 'uri': u, 'text': t, '_tk': 'valid_gen'}, hg.request(u, t, 'definition', ('ident', 2, 5)),
                                hg.request(u, t, 'definition', ('ident', 2, 15)), hg.request(u, t, 'hover', ('ident', 2, 8)), {'op': 'close', 'uri': u}]))
    # every identifier of a few accepted grammars: definition / references / hover on each occurrence
    n_ident = 6 if quick else 60
    cands = []
    for j in range(n_ident * 6):
        r = j % 6
        if r == 5:
            cands.append(('valid_repo', rng.choice(tg.repo_small)[1]))
        else:
            t = gen_accept_friendly(rng)
            if r in (1, 2, 3):
                t = tg.decorate(t)
            if r == 3:
                t = t.replace('\n', '\r\n')
            cands.append(('crlf' if r == 3 else 'unicode' if r in (1, 2) else 'valid_gen', t))
    world.need_truth([t for _, t in cands])
    chosen = [(k, t) for (k, t) in cands if world.truth[t].accepted and world.truth[t].names][:n_ident]
    for kind, t in chosen:
        doc = k6.Doc(t)
        ids = k6.ident_positions(doc)
        rng.shuffle(ids)
        ids = ids[:60 if quick else 150]
        # predicates and actions: their definition is looked up in parser.rs
        for mm in re.finditer(r'[?#]\d+', t):
            p = doc.byte_to_pos(len(t[:mm.start()].encode('utf-8')))
            if world.truth[t].smallest(len(t[:mm.start()].encode('utf-8'))) is not None:
                ids.append((p[0], p[1] + 1))
        u = hg.uris[0]
        for s in range(0, len(ids), 30):
            h = [{'op': 'open', 'uri': u, 'text': t, '_tk': kind}]
            for (l, c) in ids[s:s + 30]:
                for op in ('definition', 'references', 'hover'):
                    mm = hg.request(u, t, op, ('ident', l, c))
                    if op == 'references':
                        mm['with_def'] = rng.random() < 0.7
                    h.append(mm)
            fam.append(('identifiers', h))
    # a text nested far deeper than any grammar written by hand
    u = hg.uris[0]
    deep = 'token A;\nstart s;\ns: ' + '(' * 1500 + 'A' + ')' * 1500 + ';\n'
    fam.append(('deep', [{'op': 'open', 'uri': u, 'text': deep, '_tk': 'deep'}, hg.request(u, deep, 'hover', ('inside', 2, 1)), {'op': 'close', 'uri': u}]))
    histories = [h for _, h in fam]
    for h in histories:
        assert k6.conformant(h)

    # ---- ground truth, in-process runs, oracles
    t0 = time.time()
    world.prepare(histories)
    t_truth = time.time() - t0
    t0 = time.time()
    answers = k6.run_inproc(histories, workers=WORKERS)
    t_inproc = time.time() - t0

    known = KnownLsp(world, judge)
    known.rerun_witnesses()

    failures = []
    judged = [0]
    nontrivial = set()

    def take(family, h, ans):
        fs, n = judge.judge(h, ans)
        judged[0] += n
        for f in fs:
            f.history = h
            f.family = family
            k = known.match(f) if f.oracle in CRASH_ORACLES else None
            if k is not None:
                f.known = k[0]
                known.hits['%s/%s' % k] += 1
            failures.append(f)
        if is_nontrivial(h, ans):
            nontrivial.add(hashlib.sha1(canon([k6.wire(m) for m in h]).encode()).hexdigest())
    for (family, h), ans in zip(fam, answers):
        take(family, h, ans)

    # ---- a session ends at its first dead thread: retry it without the offending request (the position
    # clamped into the text when that is what killed the thread), so that the rest of the history is exercised
    def clamp(h, j, ta):
        d2 = k6.Doc(ta[j])
        if d2.pos_class(h[j]['line'], h[j]['character']) is not None:
            l2 = min(h[j]['line'], d2.nlines - 1)
            c2 = min(h[j]['character'], d2.len16[l2])
            if d2.pos_class(l2, c2) is not None:
                c2 -= 1
            h[j].update({'line': l2, 'character': c2, '_pk': 'clamped_retry'})
    round_fails = list(failures)
    for rnd in range(3):
        retry = []
        seen = set()
        for f in round_fails:
            if f.oracle != 'dead_thread' or f.history[f.index]['op'] not in k6.REQUEST_OPS:
                continue
            h = [dict(m) for m in f.history]
            if cls_position(f, world):
                ta = k6.texts_at(h)
                for j in range(f.index, len(h)):
                    if h[j]['op'] in k6.POSITIONAL_OPS:
                        clamp(h, j, ta)
            else:
                del h[f.index]
            key = canon([k6.wire(m) for m in h])
            if len(h) > 1 and key not in seen and k6.conformant(h):
                seen.add(key)
                retry.append(h)
        if not retry:
            break
        world.prepare(retry)
        rans = k6.run_inproc(retry, workers=WORKERS)
        before = len(failures)
        for h, ans in zip(retry, rans):
            fam.append(('retry', h))
            histories.append(h)
            answers.append(ans)
            take('retry', h, ans)
        round_fails = failures[before:]

    # ---- stdio sessions with the real binary, varied pacing
    t0 = time.time()
    idx_random = [i for i, (fm, _) in enumerate(fam) if fm in ('random', 'retry')]
    idx_out = [i for i, (fm, h) in enumerate(fam) if fm == 'sweep' and len(h) == 3]
    prng = random.Random(ck.seed * 7919 + 13)
    pick = prng.sample(idx_random, min(len(idx_random), n_stdio_h - n_stdio_h // 5)) + prng.sample(idx_out, min(len(idx_out), n_stdio_h // 5))
    jobs = []
    job_of = []
    for hi in pick:
        for pace in paces:
            sleeps = [prng.choice([0, 0.001, 0.005, 0.02]) for _ in histories[hi]]
            jobs.append((histories[hi], pace, sleeps))
            job_of.append((hi, pace))
    sess = stdio_sessions(world, jobs)
    stdio_fail = 0
    stdio_died = 0
    for (hi, pace), so in zip(job_of, sess):
        stats['stdio_pace_' + pace] += 1
        if so['died']:
            stdio_died += 1
        d = compare_stdio(histories[hi], answers[hi], so, stats)
        if d is not None:
            stdio_fail += 1
            f = Failure(-1, 'stdio', 'stdio_vs_inproc', 'pace %s: %s' % (pace, d), {'stdio': so, 'inproc': answers[hi]})
            f.history = histories[hi]
            f.family = fam[hi][0]
            f.where = 'stdio, pace ' + pace
            failures.append(f)
    t_stdio = time.time() - t0

    # ---- verdict: known findings aside, every failure is a violation (one per signature, at most 3, shrunk first)
    def evaluate_many(hs):
        world.prepare(hs)
        out = []
        for h, ans in zip(hs, k6.run_inproc(hs, workers=WORKERS, chunk=1)):
            fs, _ = Judge(world).judge(h, ans)
            g = fs[0] if fs else None
            if g is not None:
                g.history = h
                k = known.match(g) if g.oracle in CRASH_ORACLES else None
                g.known = k[0] if k else None
            out.append(g)
        return out

    t0 = time.time()
    unknown = [f for f in failures if f.known is None]
    by_sig = collections.OrderedDict()
    for f in unknown:
        by_sig.setdefault(f.sig, []).append(f)
    reported = 0
    violation_sigs = {}
    for sig, fs in by_sig.items():
        violation_sigs[sig] = len(fs)
        if reported >= 3:
            continue
        f = min(fs, key=lambda x: (len(x.history), sum(len(m.get('text', '')) for m in x.history)))
        runs = 0
        if f.oracle != 'stdio':
            f, runs = shrink(f, evaluate_many, budget=160 if quick else 400)
        rec = f.record()
        rec['shrink_runs'] = runs
        rec['failures_with_this_signature'] = len(fs)
        if f.oracle in CRASH_ORACLES:
            # confirm against the real binary: append a request that touches the document again
            h = [k6.wire(m) for m in f.history]
            u = h[f.index]['uri']
            probe = h[:f.index + 1]
            if f.oracle == 'dead_thread':
                probe = probe + [{'op': 'hover', 'uri': u, 'line': 0, 'character': 0}]
            so = k6.run_stdio(probe, pace='sync', stderr_path=os.path.join(work, 'err', 'confirm%d.txt' % reported))
            rec['confirmed_on_lelwel_ls'] = {'history': probe, 'server_died': so['died'], 'exit_status': so['exit'], 'stderr_tail': so['stderr'][-600:]}
        ck.violation('[%s] %s' % (f.sig, f.what[:1200]), rec)
        reported += 1

    ck.known = known.lines
    t_shrink = time.time() - t0

    # ---- evidence
    kinds = collections.Counter()
    tkinds = collections.Counter()
    pkinds = collections.Counter()
    lens = collections.Counter()
    fams = collections.Counter()
    for fm, h in fam:
        fams[fm] += 1
        lens[min(len(h) // 4 * 4, 40)] += 1
        for m in h:
            kinds[m['op']] += 1
            if '_tk' in m:
                tkinds[m['_tk']] += 1
            if '_pk' in m and m['op'] in k6.POSITIONAL_OPS:
                pkinds[m['_pk']] += 1
    samples = []
    for fmname in ('random', 'sweep', 'identifiers'):
        for (fm, h), ans in zip(fam, answers):
            if fm == fmname and len(canon(h)) < 3000:
                samples.append({'family': fm, 'history': [k6.wire(m) for m in h][:8],
                                'answers': [({'result': a.get('result')} if 'result' in a else {k: a[k] for k in a if k not in ('i',)}) for a in ans[:8]]})
                break
    if sess:
        samples.append({'family': 'stdio', 'pace': job_of[0][1], 'history': [k6.wire(m) for m in histories[job_of[0][0]]][:6],
                        'server_died': sess[0]['died'], 'exit_status': sess[0]['exit']})
    answers_hist = {k: v for k, v in stats.items() if k.startswith('answers_')}
    oracle_hist = {k: v for k, v in stats.items() if not k.startswith('answers_')}
    ck.cov = {
        'evaluations': len(histories) + len(jobs),
        'distinct_nontrivial': len(nontrivial),
        'rule': 'histories of open/change/close notifications and hover/definition/references/completion/formatting requests over <=3 documents, '
                'protocol-conformant (requests only for open documents). Families: random (<=%d messages; texts = random grammars, repository grammars, token-level mutants, '
                'half-typed fragments and prefixes, multi-byte decorated grammars, CRLF; positions = on identifiers, inside lines, line end, past the line end, past the last line, '
                'inside surrogate pairs, huge), sweep (every UTF-16 position of every line of a small text for every request kind, each outside position in a session of its own), '
                'identifiers (definition+references+hover on identifier occurrences of accepted grammars; definition on predicates/actions into parser.rs), deep (1500 nested parentheses), '
                'retry (sessions that ended in a dead analysis thread, re-run without the offending request / with out-of-range positions clamped, up to 3 rounds). '
                'Every history runs in-process on ide::Cache driven like lelwel-ls.rs; a sample also runs over stdio on the lelwel-ls binary under each pacing and is compared answer by answer. '
                'A history is non-trivial when it got at least one non-null, non-empty request answer or non-empty diagnostics; distinct by its message list' % maxlen,
        'samples': samples,
        'histories_in_process': len(histories), 'stdio_sessions': len(jobs), 'stdio_histories': len(pick), 'stdio_sessions_server_died': stdio_died,
        'stdio_disagreements': stdio_fail, 'messages_judged': judged[0],
        'family_histogram': dict(fams), 'message_kind_histogram': dict(kinds), 'text_kind_histogram': dict(tkinds), 'position_kind_histogram': dict(pkinds),
        'history_length_histogram': {str(k): v for k, v in sorted(lens.items())},
        'answer_histogram': answers_hist, 'oracle_histogram': oracle_hist,
        'distinct_texts': len(world.truth), 'texts_accepted_by_cli': len([1 for t in world.truth.values() if t.accepted]),
        'texts_formatted_by_cli': len(world.fmt),
        'failures_total': len(failures), 'failures_attributed_to_known_findings': dict(known.hits),
        'violation_signatures': violation_sigs,
        'unattributed_failures_by_signature': [{'signature': sg, 'count': len(fs), 'where': fs[0].where, 'family': getattr(fs[0], 'family', None), 'what': fs[0].what[:1500],
                                                'history': [k6.wire(m) for m in fs[0].history] if len(canon(fs[0].history)) < 2500 else 'long'} for sg, fs in by_sig.items()],
        'known_witnesses_still_failing': sorted('%s/%s' % k for k in known.still),
        'timing_s': {'ground_truth': round(t_truth, 1), 'in_process': round(t_inproc, 1), 'stdio': round(t_stdio, 1), 'build': round(t_build or 0, 1), 'shrink_and_confirm': round(t_shrink, 1)},
    }
    nthm = len(pst['theorems'])
    ck.cov.update({
        'theorems': pst['theorems'],
        'obligations': nthm + 1, 'discharged': (nthm if not checks.proof_broken(pst) else 0) + (0 if model_bad else 1),
        'checker_cmd': 'make -C coq (coq_makefile, full .vo) ; coqc -Q . LV Props/C20.v (Print Assumptions parsed) ; source audit grep ; '
                       'python3 tools/k6_lspmodel.py (model ocaml/lspdriver vs lv-harness lsppos / lsp and lelwel-ls)',
        'trusted_base': lv.TRUSTED_BASE[:3] + [
            'ocaml/lspdriver.ml, harness/src/lsppos.rs + the add-only hook verif_position_to_offset / verif_span_to_range (cfg lelwel_verif), tools/k6_lspmodel.py: trusted for the correspondence only',
            'modelled, not verified: the analysis (parse, semantic pass, hover/lookup/completion/format) as an abstract function of the text; uris as numbers; usize/u32 as nat; '
            'not modelled: analysis threads and channels, JSON-RPC transport, non-file uris'],
        'explanation': 'PROVED in Coq (coq/Props/C20.v over coq/Model/Lsp.v, for every history, text, position, offset and every analysis function; tied to the code by the '
                       'correspondence tools/k6_lspmodel.py on every run): (1) the document store of lelwel-ls.rs / ide::Cache - no message of a protocol-conformant history crashes the server, '
                       'every publication and every answer of every history is computed from exactly the latest text of its document (the last contentChanges entry; an empty change is silent), '
                       'documents are independent, one publication per text-carrying notification; (2) position conversion (compat::position_to_offset / span_to_range over codespan) - the offset '
                       'of any position is <= the length, a character boundary, inside the addressed line or the document end; every character boundary converts to a position inside the document; '
                       'other offsets fail; round trip unless a \\r precedes the offset on its line. '
                       'NOT proved, decided by the EXPLORATION of the real code in this same check (histories in-process and over stdio): the content of the answers - published diagnostics equal '
                       'to the command-line check, go-to-definition / find-references agreement, hover sets, formatting edits - which is the analysis the model abstracts as a function of the text; '
                       'the analysis threads and channels (a panic inside an analysis thread, the dead-thread race), the JSON-RPC transport, non-file uris. The equality of the literal codespan '
                       'transcription with the one-pass functions the theorems speak about is checked on every correspondence case, not proved.',
        'disagreements_checked': sum(v for k, v in (model_cov.get('counts') or {}).items() if k in ('pos_p2o_pairs', 'pos_o2p_pairs', 'store_messages', 'stdio_messages', 'e2e_hovers_on_identifiers') and isinstance(v, int)),
        'model_correspondence': model_cov, 'model_disagreements': len(model_bad), 'model_findings': model_findings,
    })
    ck.cov['timing_s']['model_proof_and_correspondence'] = round(t_model, 1)
    if dev_note:
        ck.cov['development_build_note'] = dev_note
    ck.cov['rule'] = ('THEOREM part (store, positions): see coverage.explanation; its tie to the code is coverage.model_correspondence (random texts x positions/offsets through the hooks, '
                      'random conformant and unconstrained histories through ide::Cache and the model, model-paced stdio sessions with 0-3 contentChanges entries, end-to-end hovers). '
                      'EXPLORATION part (answer contents, threads, transport): ' + ck.cov['rule'])
    ck.assumptions = [
        'the in-process driver (harness/src/lsp.rs) replicates the control flow of src/bin/lelwel-ls.rs per message kind; checked on every run by comparing its answers with the binary over stdio',
        'expected diagnostics are computed from the command-line front end (harness gen/sema) with an independent byte-offset -> line/UTF-16 conversion',
        'documents are addressed by file:// URIs; lines end at \\n (a lone \\r is not generated)',
        'known finding D11 is attributed only to a dead analysis thread at a positional request whose position is past the line end, past the last line or inside a surrogate pair, and only while the recorded witness of that subclass still fails',
    ]
    ck.finish()


def replay(ck, world, path):
    """re-run the history of a replay file in-process and on the binary; exit 1 iff it still fails
    outside the known findings (the evidence file is left alone)"""
    j = json.load(open(path))
    h = (j.get('replay') or j)['history']
    if not k6.conformant(h):
        print('replay history is not protocol-conformant')
        sys.exit(2)
    known = KnownLsp(world, None)
    known.rerun_witnesses()
    world.prepare([h])
    ans = k6.run_inproc([h], workers=1)[0]
    fs, _ = Judge(world).judge(h, ans)
    bad = []
    for f in fs:
        f.history = h
        if f.oracle in CRASH_ORACLES and known.match(f) is not None:
            lv.log('known finding: ' + f.what)
            continue
        bad.append('[%s] message %d: %s' % (f.sig, f.index, f.what))
    for pace in ('sync', 'burst'):
        so = k6.run_stdio(h, pace=pace, stderr_path=os.path.join(world.work, 'err', 'replay_%s.txt' % pace))
        d = compare_stdio(h, ans, so, collections.Counter())
        lv.log('lelwel-ls over stdio (%s): died=%s exit=%r' % (pace, so['died'], so['exit']))
        if d is not None:
            bad.append('[stdio_vs_inproc] pace %s: %s' % (pace, d))
    for l in known.lines:
        print('KNOWN-FINDING: property=C20 ' + l)
    for b in bad:
        lv.log('violation: ' + b)
    if bad:
        print('VIOLATION property=C20 replay=%s' % path)
    sys.stdout.flush()
    sys.exit(1 if bad else 0)


def gen_accept_friendly(rng):
    """random grammars that /repo mostly accepts (few rules, distinct leading tokens)"""
    import gen_grammar
    return gen_grammar.Gen(rng, {'ntok': (4, 10), 'nrules': (1, 4), 'depth': 2, 'unique_lead': 0.95, 'choice': 0.1, 'pratt': 0.2}).grammar().text()


def k6_small_grammar(rng, tg):
    import gen_grammar
    for _ in range(20):
        t = gen_grammar.Gen(rng, {'ntok': (1, 3), 'nrules': (1, 2), 'depth': 1, 'skip': 0.2}).grammar().text()
        if len(t) <= 90:
            return t
    return 'token A B;\nstart s;\ns: A [B];\n'


def is_nontrivial(h, ans):
    for m, a in zip(h, ans):
        r = a.get('result')
        if r not in (None, [], {}):
            return True
    return False


if __name__ == '__main__':
    import tempfile
    w = tempfile.mkdtemp(prefix='lv_C20_')
    try:
        check_C20(w, sys.argv[1:])
    finally:
        shutil.rmtree(w, ignore_errors=True)
