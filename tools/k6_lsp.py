"""K6: language-server sessions.

(a) a minimal LSP client over stdio for the real `lelwel-ls` binary and a
    runner for the in-process driver (`lv-harness lsp`), both taking the same
    *history*: a list of messages
        {"op":"open","uri":U,"text":T} {"op":"change","uri":U,"text":T} {"op":"close","uri":U}
        {"op":"hover"|"definition"|"references"|"completion"|"formatting","uri":U,"line":L,"character":C,"with_def":bool}
    (keys starting with "_" are generator metadata and never reach the server);
(b) generators of texts, positions and protocol-conformant histories, driven
    by a random.Random.
"""
import bisect
import glob
import json
import os
import queue
import re
import subprocess
import threading
import time

import lv

REQUEST_OPS = ('hover', 'definition', 'references', 'completion', 'formatting')
POSITIONAL_OPS = ('hover', 'definition', 'references', 'completion')
METHODS = {
    'hover': 'textDocument/hover', 'definition': 'textDocument/definition', 'references': 'textDocument/references',
    'completion': 'textDocument/completion', 'formatting': 'textDocument/formatting',
}


# ---------------------------------------------------------------- text <-> positions

def utf16_len(s):
    return sum(2 if ord(c) > 0xFFFF else 1 for c in s)


class Doc:
    """a document as the protocol sees it: lines end at '\\n' (a '\\r' before it belongs to the
    line terminator); positions are (line, UTF-16 code unit)"""

    def __init__(self, text):
        self.text = text
        self.bytes = text.encode('utf-8')
        self.lines_raw = text.split('\n')                      # may end in '\r'
        self.lines = [l[:-1] if l.endswith('\r') else l for l in self.lines_raw]
        self.nlines = len(self.lines)
        self.len16 = [utf16_len(l) for l in self.lines]        # strict: without the terminator
        self.len16_raw = [utf16_len(l) for l in self.lines_raw]  # with a trailing '\r'
        self.bstarts = [0]
        for i, b in enumerate(self.bytes):
            if b == 10:
                self.bstarts.append(i + 1)
        self.cstarts = [0]
        for l in self.lines_raw[:-1]:
            self.cstarts.append(self.cstarts[-1] + len(l) + 1)

    def byte_to_pos(self, off):
        """byte offset -> (line, utf16 character); None if not on a character boundary / outside"""
        if off < 0 or off > len(self.bytes):
            return None
        line = bisect.bisect_right(self.bstarts, off) - 1
        try:
            pre = self.bytes[self.bstarts[line]:off].decode('utf-8')
        except UnicodeDecodeError:
            return None
        return (line, utf16_len(pre))

    def span_to_range(self, s, e):
        a, b = self.byte_to_pos(s), self.byte_to_pos(e)
        if a is None or b is None:
            return None
        return {'start': {'line': a[0], 'character': a[1]}, 'end': {'line': b[0], 'character': b[1]}}

    def pos_to_cidx(self, line, character):
        """(line, utf16) -> index into self.text (code points), clamping as the protocol says;
        returns (index, exact) where exact is False when the position had to be clamped or sits
        inside a surrogate pair"""
        if line >= self.nlines:
            return len(self.text), False
        raw = self.lines_raw[line]
        u = 0
        for i, c in enumerate(raw):
            if u == character:
                return self.cstarts[line] + i, True
            if u > character:
                return self.cstarts[line] + i, False
            u += 2 if ord(c) > 0xFFFF else 1
        if u == character:
            return self.cstarts[line] + len(raw), True
        return self.cstarts[line] + len(raw), False

    def pos_to_byte(self, line, character):
        ci, exact = self.pos_to_cidx(line, character)
        return len(self.text[:ci].encode('utf-8')), exact

    def pos_class(self, line, character):
        """None for a position on a character boundary inside the document (line end included),
        else 'past_last_line' | 'past_line_end' | 'mid_surrogate'"""
        if line > self.nlines - 1:
            return 'past_last_line'
        if character > self.len16[line]:
            return 'past_line_end'
        u = 0
        for c in self.lines[line]:
            if u == character:
                return None
            if u > character:
                return 'mid_surrogate'
            u += 2 if ord(c) > 0xFFFF else 1
        return None if u == character else 'mid_surrogate'

    def range_problem(self, r):
        """None when the range lies inside the document, else a description"""
        try:
            sl, sc, el, ec = r['start']['line'], r['start']['character'], r['end']['line'], r['end']['character']
        except Exception:
            return 'malformed range %r' % (r,)
        for (l, c, nm) in ((sl, sc, 'start'), (el, ec, 'end')):
            if not isinstance(l, int) or not isinstance(c, int) or l < 0 or c < 0:
                return '%s is not a position: %r' % (nm, r)
            if l > self.nlines - 1:
                return '%s line %d is past the last line %d' % (nm, l, self.nlines - 1)
            if c > self.len16_raw[l]:
                return '%s character %d is past the end of line %d (UTF-16 length %d)' % (nm, c, l, self.len16_raw[l])
            u = 0
            for ch in self.lines_raw[l]:
                if u >= c:
                    break
                u += 2 if ord(ch) > 0xFFFF else 1
            if u != c and c < self.len16_raw[l]:
                return '%s character %d of line %d is inside a surrogate pair' % (nm, c, l)
        if (sl, sc) > (el, ec):
            return 'start after end: %r' % (r,)
        return None

    def range_text(self, r):
        a, _ = self.pos_to_cidx(r['start']['line'], r['start']['character'])
        b, _ = self.pos_to_cidx(r['end']['line'], r['end']['character'])
        return self.text[a:b]

    def apply_edits(self, edits):
        """apply non-overlapping TextEdits"""
        es = []
        for e in edits:
            a, _ = self.pos_to_cidx(e['range']['start']['line'], e['range']['start']['character'])
            b, _ = self.pos_to_cidx(e['range']['end']['line'], e['range']['end']['character'])
            es.append((a, b, e['newText']))
        es.sort(key=lambda x: (x[0], x[1]))
        out = []
        last = 0
        for a, b, t in es:
            if a < last:
                return None
            out.append(self.text[last:a])
            out.append(t)
            last = b
        out.append(self.text[last:])
        return ''.join(out)


def wire(msg):
    """the part of a history message that the drivers see"""
    return {k: v for k, v in msg.items() if not k.startswith('_')}


def conformant(history):
    """requests and changes only for open documents, no double open, no close of a closed document"""
    is_open = set()
    for m in history:
        op, u = m['op'], m.get('uri')
        if op == 'open':
            if u in is_open:
                return False
            is_open.add(u)
        elif op == 'close':
            if u not in is_open:
                return False
            is_open.discard(u)
        else:
            if u not in is_open:
                return False
    return True


def texts_at(history):
    """per message: the latest text of its document when the message is served (None when closed)"""
    cur = {}
    out = []
    for m in history:
        if m['op'] in ('open', 'change'):
            cur[m['uri']] = m['text']
        out.append(cur.get(m['uri']))
        if m['op'] == 'close':
            cur.pop(m['uri'], None)
    return out


# ---------------------------------------------------------------- in-process driver

def _run_inproc_batch(histories, timeout_ms):
    """returns per history a list of answer dicts (one per message), or marks where the driver
    process itself died ({'crash': code}) or hung ({'hang': True})"""
    results = [None] * len(histories)
    start = 0
    while start < len(histories):
        lines = []
        index = []  # (history idx, message idx or None for reset)
        for hi in range(start, len(histories)):
            lines.append(json.dumps({'op': 'reset'}))
            index.append((hi, None))
            for mi, m in enumerate(histories[hi]):
                lines.append(json.dumps(wire(m)))
                index.append((hi, mi))
        try:
            r = subprocess.run([lv.HARNESS_BIN, 'lsp', '--timeout-ms', str(timeout_ms)], input=('\n'.join(lines) + '\n').encode('utf-8'),
                               stdout=subprocess.PIPE, stderr=subprocess.PIPE, timeout=max(60, 3 * len(lines) * timeout_ms / 1000.0))
            outs = [l for l in r.stdout.decode('utf-8', 'replace').split('\n') if l.strip()]
            code = r.returncode
            err = r.stderr.decode('utf-8', 'replace')[-600:]
        except subprocess.TimeoutExpired as e:
            outs = [l for l in (e.stdout or b'').decode('utf-8', 'replace').split('\n') if l.strip()]
            code = 'timeout'
            err = ''
        parsed = []
        for l in outs:
            try:
                parsed.append(json.loads(l))
            except Exception:
                parsed.append({'garbled': l[:200]})
        for hi in range(start, len(histories)):
            results[hi] = []
        n_ok = len(parsed)
        hang = bool(parsed) and parsed[-1].get('hang')
        if hang:
            n_ok -= 1
        for k in range(min(n_ok, len(index))):
            hi, mi = index[k]
            if mi is not None:
                results[hi].append(parsed[k])
        if n_ok >= len(index):
            break
        # the driver died (stack overflow, abort) or hung while serving message index[n_ok]
        hi, mi = index[n_ok]
        if mi is None:  # died on a reset: cannot happen, treat as crash of the first message
            mi = 0
        results[hi] = results[hi][:mi]
        results[hi].append({'hang': True} if hang else {'crash': code, 'stderr': err})
        start = hi + 1
    return results


def run_inproc(histories, workers=16, timeout_ms=10000, chunk=8):
    """run every history on a fresh ide::Cache; answers in the order of the histories"""
    if not histories:
        return []
    chunks = [histories[i:i + chunk] for i in range(0, len(histories), chunk)]
    from concurrent.futures import ThreadPoolExecutor
    with ThreadPoolExecutor(max_workers=workers) as ex:
        parts = list(ex.map(lambda c: _run_inproc_batch(c, timeout_ms), chunks))
    res = [r for p in parts for r in p]
    # a watchdog verdict is confirmed on its own with a generous limit (the machine may be busy)
    if timeout_ms < 60000:
        for k, ans in enumerate(res):
            if any(isinstance(a, dict) and a.get('hang') for a in ans):
                again = _run_inproc_batch([histories[k]], 60000)
                if again:
                    res[k] = again[0]
    return res


# ---------------------------------------------------------------- stdio client

class ServerDied(Exception):
    pass


class RequestTimeout(Exception):
    pass


class LspClient:
    """JSON-RPC over stdio with Content-Length framing"""

    def __init__(self, binary=None, stderr_path=None, timeout=10.0):
        self.binary = binary or lv.LS_BIN
        self.stderr_path = stderr_path
        self.timeout = timeout
        self.proc = None
        self.q = queue.Queue()
        self.next_id = 1
        self.eof = False
        self.capabilities = None

    def start(self):
        env = dict(os.environ)
        env['RUST_BACKTRACE'] = '0'
        self._errf = open(self.stderr_path, 'wb') if self.stderr_path else subprocess.DEVNULL
        self.proc = subprocess.Popen([self.binary], stdin=subprocess.PIPE, stdout=subprocess.PIPE, stderr=self._errf, env=env)
        self.reader = threading.Thread(target=self._read_loop, daemon=True)
        self.reader.start()

    def _read_loop(self):
        f = self.proc.stdout
        try:
            while True:
                n = None
                while True:
                    line = f.readline()
                    if not line:
                        self.q.put(None)
                        return
                    line = line.strip()
                    if not line:
                        break
                    if line.lower().startswith(b'content-length:'):
                        n = int(line.split(b':', 1)[1])
                if n is None:
                    continue
                body = f.read(n)
                if len(body) < n:
                    self.q.put(None)
                    return
                self.q.put(json.loads(body.decode('utf-8')))
        except Exception:
            self.q.put(None)

    def send(self, obj):
        body = json.dumps(obj).encode('utf-8')
        try:
            self.proc.stdin.write(b'Content-Length: %d\r\n\r\n' % len(body) + body)
            self.proc.stdin.flush()
        except (BrokenPipeError, OSError, ValueError):
            raise ServerDied()

    def recv(self, timeout=None):
        """next message from the server; raises ServerDied at end of stream, RequestTimeout"""
        if self.eof:
            raise ServerDied()
        try:
            m = self.q.get(timeout=self.timeout if timeout is None else timeout)
        except queue.Empty:
            raise RequestTimeout()
        if m is None:
            self.eof = True
            raise ServerDied()
        return m

    def request(self, method, params):
        i = self.next_id
        self.next_id += 1
        self.send({'jsonrpc': '2.0', 'id': i, 'method': method, 'params': params})
        return i

    def notify(self, method, params):
        self.send({'jsonrpc': '2.0', 'method': method, 'params': params})

    def initialize(self):
        i = self.request('initialize', {'processId': None, 'rootUri': None, 'capabilities': {}})
        while True:
            m = self.recv()
            if m.get('id') == i:
                self.capabilities = (m.get('result') or {}).get('capabilities')
                break
        self.notify('initialized', {})

    def exit_code(self, wait=5.0):
        try:
            return self.proc.wait(timeout=wait)
        except subprocess.TimeoutExpired:
            return None

    def kill(self):
        if self.proc is not None:
            try:
                self.proc.kill()
            except Exception:
                pass
            try:
                self.proc.wait(timeout=5)
            except Exception:
                pass
            for f in (self.proc.stdin, self.proc.stdout):
                try:
                    f.close()
                except Exception:
                    pass
        if self.stderr_path and hasattr(self._errf, 'close'):
            self._errf.close()

    def stderr_tail(self, n=1500):
        if not self.stderr_path or not os.path.exists(self.stderr_path):
            return ''
        try:
            return open(self.stderr_path, 'rb').read()[-n:].decode('utf-8', 'replace')
        except Exception:
            return ''


def _send_message(cl, m, version):
    """returns what answer is expected: ('resp', id) | ('diag',) | None"""
    op = m['op']
    td = {'uri': m.get('uri')}
    if op == 'open':
        cl.notify('textDocument/didOpen', {'textDocument': {'uri': m['uri'], 'languageId': 'lelwel', 'version': version, 'text': m['text']}})
        return ('diag',)
    if op == 'change':
        # the server declares TextDocumentSyncKind::FULL (1): one change event carrying the whole text
        cl.notify('textDocument/didChange', {'textDocument': {'uri': m['uri'], 'version': version}, 'contentChanges': [{'text': m['text']}]})
        return ('diag',)
    if op == 'close':
        cl.notify('textDocument/didClose', {'textDocument': td})
        return None
    pos = {'line': m.get('line', 0), 'character': m.get('character', 0)}
    if op in ('hover', 'definition', 'completion'):
        return ('resp', cl.request(METHODS[op], {'textDocument': td, 'position': pos}))
    if op == 'references':
        return ('resp', cl.request(METHODS[op], {'textDocument': td, 'position': pos, 'context': {'includeDeclaration': bool(m.get('with_def'))}}))
    if op == 'formatting':
        return ('resp', cl.request(METHODS[op], {'textDocument': td, 'options': {'tabSize': 4, 'insertSpaces': True}}))
    raise ValueError(op)


def run_stdio(history, pace='sync', sleeps=None, timeout=10.0, stderr_path=None, binary=None):
    """One session with the real server.  pace: 'sync' (wait for each answer before the next message),
    'paced' (do not wait, sleep between messages), 'burst' (write everything at once).
    sleeps: list of seconds, one per message (used by 'sync' and 'paced').
    Returns {'answers': [per message: {'result':..} | {'no_answer': why} | {'none': True}],
             'died': bool, 'exit': code, 'shutdown_ok': bool, 'sync_full': bool, 'stderr': tail, 'extra': [...]}"""
    cl = LspClient(binary=binary, stderr_path=stderr_path, timeout=timeout)
    n = len(history)
    answers = [None] * n
    expect_resp = {}      # id -> message index
    diag_queue = []       # message indices awaiting a publishDiagnostics, in order
    extra = []
    out = {'answers': answers, 'died': False, 'exit': None, 'shutdown_ok': False, 'sync_full': None, 'stderr': '', 'extra': extra,
           'pace': pace}

    def absorb(msg):
        if 'id' in msg and 'method' not in msg:
            mi = expect_resp.pop(msg['id'], None)
            if mi is None:
                extra.append(msg)
            elif 'error' in msg:
                answers[mi] = {'error': msg['error']}
            else:
                answers[mi] = {'result': msg.get('result')}
        elif msg.get('method') == 'textDocument/publishDiagnostics':
            if diag_queue:
                mi = diag_queue.pop(0)
                p = msg.get('params') or {}
                answers[mi] = {'result': p.get('diagnostics'), 'uri': p.get('uri')}
            else:
                extra.append(msg)
        else:
            extra.append(msg)

    def pending(mi):
        return answers[mi] is None and (mi in diag_queue or mi in expect_resp.values())

    try:
        cl.start()
        cl.initialize()
        out['sync_full'] = ((cl.capabilities or {}).get('textDocumentSync') == 1)
        version = 0
        try:
            for mi, m in enumerate(history):
                version += 1
                if sleeps and pace in ('sync', 'paced') and sleeps[mi] > 0:
                    time.sleep(sleeps[mi])
                exp = _send_message(cl, wire(m), version)
                if exp is None:
                    answers[mi] = {'none': True}
                elif exp[0] == 'diag':
                    diag_queue.append(mi)
                else:
                    expect_resp[exp[1]] = mi
                if pace == 'sync' and exp is not None:
                    while pending(mi):
                        absorb(cl.recv())
            # everything is sent: ask for shutdown and collect until its response
            sid = cl.request('shutdown', None)
            while True:
                msg = cl.recv()
                if msg.get('id') == sid and 'method' not in msg:
                    out['shutdown_ok'] = 'error' not in msg
                    break
                absorb(msg)
            cl.notify('exit', None)
            out['exit'] = cl.exit_code(10.0)
        except ServerDied:
            out['died'] = True
            out['exit'] = cl.exit_code(5.0)
        except RequestTimeout:
            out['timeout'] = True
        # drain what the reader thread still has
        try:
            while True:
                msg = cl.q.get_nowait()
                if msg is not None:
                    absorb(msg)
        except queue.Empty:
            pass
        for mi in range(n):
            if answers[mi] is None:
                answers[mi] = {'no_answer': 'timeout' if out.get('timeout') else ('died' if out['died'] else 'never')}
    finally:
        cl.kill()
        out['stderr'] = cl.stderr_tail()
    return out


# ---------------------------------------------------------------- texts

FRAGMENTS = [
    '', ' ', '\n', '\t', '\r\n', 'token ;', 'token', 'token A', 'token A=', "token A='", "token A='a", "token A='a';", 's:', 's', 'start',
    'start ;', 'start s', 'start s;', 'a: (b', 'a: [b', 'a: b |', 'a: b /', 'a :', 'a: ;', 'a^:', 'a^', '\u00e9\U0001F600', '\U0001F600',
    '// unterminated comment', '/* unterminated', '/* closed */', '/// doc', '/// doc\n', "'unterminated", "token A='\\", 'skip ;', 'skip',
    'right ;', 'part ;', 'part', 'a: ?', 'a: #', 'a: !', 'a: <', 'a: 1>', 'a: >x', 'a: >', 'a: @', 'a: ~', 'a: &', 'a: ^', 'a: b* +',
    'a: ((((((((', 'a: )', 'a: ]', 'token A; start a; a: A', 'token A;;', ':', ';', '=', '|', 'start start;', 'token token;', 'a: a;',
    "a: 'x';", 'a: A | ;', '\ufefftoken A;', 'token A;\r\nstart s;\r\ns: A;\r\n', 'a: b\n// \U0001F600', 'token \u00c4;', '\u00e4: B;',
    'a:\n\t// c\n  A\n| B // d\n;', 'token A; start s; s: A', 'token A;\nstart s;\ns: A;\nt', 'token A;\nstart s;\ns: A | ;\n',
    'token A;\nstart s;\ns: (A;\n', 'token A;\nstart s;\ns: [A;\nt: A;\n', 'token A B;\nstart s;\ns: A / ;\n', 'token A;\nstart s;\ns: A\nt: A;\n',
    "token Plus='+';\nstart s;\ns: '+' '-';\n", 'token A;\nstart s;\ns: ?1 A | #1 ;\n', 'token A;\nstart s t;\ns: A;\n', 'token A A;\nstart s;\ns: A;\ns: A;\n',
    'start s;\ns: s A | ;\n', 'token A;\nskip A;\nstart s;\ns: A;\n', 'token A;\nright A;\nstart s;\ns: s A s | A;\n',
    '/// \U0001F600 doc\ntoken A;\n/** x */ start s;\n/// \u00e9\ns: A;\n', 'token A;\nstart s;\npart ;\ns: A;\n', 'token A;\nstart s;\npart p;\ns: A;\n',
    "token A='\U0001F600' B='\u00e9';\nstart s;\ns: '\U0001F600' /* \U0001F600 */ B;\n",
    'token ;\nstart s;\ns: ;', 'token ;\ns: A', 'skip ;\ntoken', 'token ;\nskip ;', 'token =;\nright ;', 'token A;\nstart s;\ns: A;\ntoken',
]

# small texts whose every position is swept on every run
FIXED_SWEEPS = ['token ;\ns: ', 'a: (b', 's: \u00e9\U0001F600 A;\r\n', 'token ;\nskip ']

MUT_TOKENS = [';', ':', '(', ')', '[', ']', '|', '/', '*', '+', '^', '~', '&', '?1', '#1', '!1', '@x', '<1', '1>x', '>', 'token', 'start',
              'skip', 'right', 'part', "'x'", "'", '\u00e9', '\U0001F600', 'Zz', 'zz', '=', '\n', '//', '/*', '*/', '///', ' ']

TOKEN_RE = re.compile(r"///[^\n]*\n?|//[^\n]*\n?|/\*.*?\*/|'(?:\\.|[^'\\\n])*'|[A-Za-z_][A-Za-z0-9_]*|\d+|\s+|.", re.S)
IDENT_RE = re.compile(r"'(?:\\.|[^'\\\n])*'|[A-Za-z_][A-Za-z0-9_]*")

UNI_COMMENTS = ['/* \u00e9 */', '/* \U0001F600 */', '/* \u65e5\u672c */', '/*\U0001F600\U0001F600*/', '/* a\u0301 */']
UNI_SYMBOLS = ["'+'", "'\u00e9'", "'\U0001F600'", "'=>'", "'\u65e5'", "'\\''", "'a b'", "'\U0001F600\u00e9'"]


def repo_texts():
    out = []
    for p in sorted(glob.glob(os.path.join(lv.REPO, 'examples', '*', 'src', '*.llw')) + glob.glob(os.path.join(lv.REPO, 'src', 'frontend', '*.llw'))
                    + glob.glob(os.path.join(lv.REPO, 'tests', 'frontend', '*.llw'))):
        try:
            out.append((os.path.relpath(p, lv.REPO), open(p, encoding='utf-8', newline='').read()))
        except Exception:
            pass
    return out


def nesting_depth(text):
    d = m = 0
    for c in text:
        if c in '([':
            d += 1
            m = max(m, d)
        elif c in ')]':
            d = max(0, d - 1)
    return m


class TextGen:
    def __init__(self, rng, deep=True):
        import gen_grammar
        self.gg = gen_grammar
        self.rng = rng
        self.repo = repo_texts()
        self.repo_small = [t for t in self.repo if len(t[1]) < 6000] or self.repo
        self.deep = deep

    def valid_gen(self):
        small = self.rng.random() < 0.6
        opts = {'ntok': (2, 6), 'nrules': (1, 3), 'depth': 2} if small else None
        return self.gg.Gen(self.rng, opts).grammar().text()

    def decorate(self, text):
        """multi-byte characters in comments and token symbols, so that bytes, code points and UTF-16
        units differ in front of identifiers on the same line"""
        rng = self.rng
        toks = TOKEN_RE.findall(text)
        # give some tokens a symbol and use the symbol in some places
        m = re.match(r'token ([^;]*);', text)
        sym_of = {}
        if m and rng.random() < 0.8:
            names = m.group(1).split()
            syms = list(UNI_SYMBOLS)
            rng.shuffle(syms)
            for nm in names:
                if syms and rng.random() < 0.5 and nm != 'Ws':
                    sym_of[nm] = syms.pop()
        out = []
        in_token_decl = False
        seen_semi = 0
        for t in toks:
            if t == 'token' and seen_semi == 0:
                in_token_decl = True
            if in_token_decl and t in sym_of:
                out.append('%s=%s' % (t, sym_of[t]))
                continue
            if t == ';':
                seen_semi += 1
                in_token_decl = False
                out.append(t)
                if rng.random() < 0.3:
                    out.append(' // ' + rng.choice(['\u00e9', '\U0001F600 x', '\u65e5\u672c\u8a9e']))
                    out.append('\n')
                continue
            if seen_semi >= 1 and not in_token_decl and t in sym_of and rng.random() < 0.5:
                out.append(sym_of[t])
                continue
            if t.isspace() and '\n' not in t and rng.random() < 0.15:
                out.append(' ' + rng.choice(UNI_COMMENTS) + ' ')
                continue
            if t.isspace() and '\n' in t and rng.random() < 0.3:
                out.append(t + '/// ' + rng.choice(['doc \u00e9', '\U0001F600', 'plain']) + '\n')
                continue
            out.append(t)
        return ''.join(out)

    def mutate(self, text, n=None):
        rng = self.rng
        toks = TOKEN_RE.findall(text)
        n = n or rng.randint(1, 3)
        for _ in range(n):
            if not toks:
                toks = [rng.choice(MUT_TOKENS)]
                continue
            i = rng.randrange(len(toks))
            k = rng.randrange(6)
            if k == 0:
                del toks[i]
            elif k == 1:
                toks.insert(i, toks[i])
            elif k == 2 and i + 1 < len(toks):
                toks[i], toks[i + 1] = toks[i + 1], toks[i]
            elif k == 3:
                toks[i] = rng.choice(MUT_TOKENS)
            elif k == 4:
                toks.insert(i, rng.choice(MUT_TOKENS))
            else:
                j = rng.randrange(len(toks))
                toks[i] = toks[j]
        return ''.join(toks)

    def fragment(self):
        rng = self.rng
        r = rng.random()
        if r < 0.55:
            return rng.choice(FRAGMENTS)
        if r < 0.9:
            base = self.valid_gen() if rng.random() < 0.7 else rng.choice(self.repo_small)[1]
            base = base[:1500]
            return base[:rng.randint(0, len(base))]
        return rng.choice(FRAGMENTS) + rng.choice(['', '\n', ' ']) + rng.choice(FRAGMENTS)

    def deep_text(self):
        rng = self.rng
        d = rng.choice([20, 60, 150])
        o = rng.choice(['(', '['])
        c = ')' if o == '(' else ']'
        closed = rng.random() < 0.5
        return 'token A;\nstart s;\ns: ' + o * d + 'A' + (c * d if closed else '') + ';\n'

    def text(self, kind=None):
        """returns (kind, text)"""
        rng = self.rng
        if kind is None:
            kind = rng.choices(['valid_gen', 'valid_repo', 'mutant', 'fragment', 'unicode', 'crlf', 'deep'],
                               [22, 6, 20, 24, 16, 8, 2 if self.deep else 0])[0]
        if kind == 'valid_gen':
            return kind, self.valid_gen()
        if kind == 'valid_repo':
            return kind, rng.choice(self.repo if rng.random() < 0.3 else self.repo_small)[1]
        if kind == 'mutant':
            base = self.valid_gen() if rng.random() < 0.75 else rng.choice(self.repo_small)[1]
            if rng.random() < 0.3:
                base = self.decorate(base)
            return kind, self.mutate(base)
        if kind == 'fragment':
            return kind, self.fragment()
        if kind == 'unicode':
            return kind, self.decorate(self.valid_gen())
        if kind == 'crlf':
            t = self.valid_gen()
            if rng.random() < 0.5:
                t = self.decorate(t)
            if rng.random() < 0.2:
                t = self.mutate(t, 1)
            return kind, t.replace('\r\n', '\n').replace('\n', '\r\n')
        if kind == 'deep':
            return kind, self.deep_text()
        raise ValueError(kind)

    def edit_of(self, text):
        """the next text while typing in a document that holds `text`"""
        rng = self.rng
        r = rng.random()
        if r < 0.35:
            return 'mutant', self.mutate(text, 1)
        if r < 0.5:
            return 'fragment', text[:rng.randint(0, len(text))]
        if r < 0.65:
            return 'fragment', text + rng.choice(MUT_TOKENS + FRAGMENTS[:40])
        return self.text()


# ---------------------------------------------------------------- positions

def ident_positions(doc):
    """(line, character) inside identifiers and string literals (start, middle, last unit)"""
    out = []
    for m in IDENT_RE.finditer(doc.text):
        for ci in {m.start(), (m.start() + m.end()) // 2, m.end() - 1}:
            p = doc.byte_to_pos(len(doc.text[:ci].encode('utf-8')))
            if p is not None:
                out.append(p)
    return out


def all_inside_positions(doc):
    """every UTF-16 position of every line, the line end included (surrogate middles excluded)"""
    out = []
    for l, s in enumerate(doc.lines):
        u = 0
        for c in s:
            out.append((l, u))
            u += 2 if ord(c) > 0xFFFF else 1
        out.append((l, u))
    return out


def outside_positions(doc):
    """[(kind, line, character)]: one past every line end, one line past the last line, surrogate middles"""
    out = []
    for l, s in enumerate(doc.lines):
        out.append(('past_line_end', l, doc.len16[l] + 1))
        u = 0
        for c in s:
            if ord(c) > 0xFFFF:
                out.append(('mid_surrogate', l, u + 1))
            u += 2 if ord(c) > 0xFFFF else 1
    out.append(('past_last_line', doc.nlines, 0))
    return out


def random_position(rng, doc, idents=None):
    """(kind, line, character)"""
    kinds = ['ident', 'inside', 'line_end', 'past_line_end', 'past_last_line', 'mid_surrogate', 'far']
    w = [30, 36, 12, 7, 5, 4, 2]
    k = rng.choices(kinds, w)[0]
    if k == 'ident':
        ids = idents if idents is not None else ident_positions(doc)
        if ids:
            l, c = rng.choice(ids)
            return k, l, c
        k = 'inside'
    if k == 'mid_surrogate':
        ms = [(l, c) for (kk, l, c) in outside_positions(doc) if kk == 'mid_surrogate'] if len(doc.text) < 20000 else []
        if ms:
            l, c = rng.choice(ms)
            return k, l, c
        k = 'inside'
    l = rng.randrange(doc.nlines)
    if k == 'inside':
        s = doc.lines[l]
        if not s:
            return 'line_end', l, 0
        ci = rng.randrange(len(s))
        return k, l, utf16_len(s[:ci])
    if k == 'line_end':
        return k, l, doc.len16[l]
    if k == 'past_line_end':
        return k, l, doc.len16[l] + rng.choice([1, 1, 1, 2, 7, 1000])
    if k == 'past_last_line':
        return k, doc.nlines - 1 + rng.choice([1, 1, 1, 2, 50]), rng.choice([0, 0, 1, 5])
    return 'far', rng.choice([l, 2 ** 31 - 1]), 2 ** 31 - 1


# ---------------------------------------------------------------- histories

class HistoryGen:
    def __init__(self, rng, textgen, docs_dir, maxlen=12, maxdocs=3):
        self.rng = rng
        self.tg = textgen
        self.maxlen = maxlen
        self.uris = ['file://' + os.path.join(docs_dir, 'd%d.llw' % i) for i in range(maxdocs)]
        self._idents = {}

    def _doc(self, text):
        d = self._idents.get(text)
        if d is None:
            doc = Doc(text)
            d = (doc, ident_positions(doc) if len(text) < 20000 else [])
            if len(self._idents) > 2000:
                self._idents.clear()
            self._idents[text] = d
        return d

    def request(self, uri, text, op=None, pos=None):
        rng = self.rng
        op = op or rng.choice(REQUEST_OPS)
        doc, ids = self._doc(text)
        if pos is None:
            if op == 'formatting':
                pos = ('none', 0, 0)
            else:
                pos = random_position(rng, doc, ids)
        m = {'op': op, 'uri': uri, 'line': pos[1], 'character': pos[2], '_pk': pos[0]}
        if op == 'references':
            m['with_def'] = rng.random() < 0.6
        return m

    def history(self):
        rng = self.rng
        n = rng.randint(2, self.maxlen)
        uris = self.uris[:rng.randint(1, len(self.uris))]
        cur = {}
        h = []
        while len(h) < n:
            closed = [u for u in uris if u not in cur]
            r = rng.random()
            if not cur or (closed and r < 0.12):
                u = rng.choice(closed)
                k, t = self.tg.text()
                cur[u] = t
                h.append({'op': 'open', 'uri': u, 'text': t, '_tk': k})
            elif r < 0.32:
                u = rng.choice(sorted(cur))
                k, t = self.tg.edit_of(cur[u])
                cur[u] = t
                h.append({'op': 'change', 'uri': u, 'text': t, '_tk': k})
            elif r < 0.40:
                u = rng.choice(sorted(cur))
                del cur[u]
                h.append({'op': 'close', 'uri': u})
            else:
                u = rng.choice(sorted(cur))
                h.append(self.request(u, cur[u]))
        return h

    def sweeps(self, text, tk, per_history=40, probe=True):
        """every position of a small text, for every positional request kind: inside positions in
        histories of `per_history` requests; every outside position in a history of its own,
        followed by a request at 0:0 that makes a dead analysis thread visible on the wire"""
        doc, _ = self._doc(text)
        u = self.uris[0]
        out = []
        inside = all_inside_positions(doc)
        for op in POSITIONAL_OPS:
            reqs = []
            for (l, c) in inside:
                kind = 'line_end' if c == doc.len16[l] else 'inside'
                if op == 'references':
                    for wd in (True, False):
                        m = self.request(u, text, op, (kind, l, c))
                        m['with_def'] = wd
                        reqs.append(m)
                else:
                    reqs.append(self.request(u, text, op, (kind, l, c)))
            for i in range(0, len(reqs), per_history):
                out.append([{'op': 'open', 'uri': u, 'text': text, '_tk': tk}] + reqs[i:i + per_history])
            for (k, l, c) in outside_positions(doc):
                h = [{'op': 'open', 'uri': u, 'text': text, '_tk': tk}, self.request(u, text, op, (k, l, c))]
                if probe:
                    h.append(self.request(u, text, 'hover', ('inside' if doc.len16[0] else 'line_end', 0, 0)))
                out.append(h)
        out.append([{'op': 'open', 'uri': u, 'text': text, '_tk': tk}, self.request(u, text, 'formatting'),
                    self.request(u, text, 'hover', ('inside' if doc.len16[0] else 'line_end', 0, 0)), {'op': 'close', 'uri': u}])
        return out
