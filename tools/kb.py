#!/usr/bin/env python3
"""KB: the back-end model (coq/Model/Compile.v, extracted) against the real back end.

For an accepted grammar the real `RustOutput` emits generated.rs, tools/rust2cmd.py reads the
emitted rule functions off as a program of the command language (Exec.v), and the model computes
`compile g (analyse g) cinfo` from the resolved grammar.  The two programs must be equal after
canonicalisation:
  * rule ids: the translator numbers the emitted functions, the model uses the rule's index in the
    file; both are mapped to rule names;
  * message ids: both sides are rendered to the message string (model: 1 = "invalid syntax",
    3*id+2 = expected-token message of reference node id, 3*id+3 = set message of node id with the
    token set the model lists, rendered the way `Generator::error` does);
  * token patterns of one arm are compared as sets (the emitted order is the BTreeSet order of the
    token names, which carries no meaning), `deletable` as a set.
A difference means: what the back end emits today is not what the model says it emits - every
theorem about `compile` is then about something else than the code.
"""
import json
import subprocess

import k2
import lv
from textbook import pascal


class Unsupported(Exception):
    pass


def walk_regex(x, f):
    f(x)
    for o in x.get('ops', []) or []:
        walk_regex(o, f)
    if x.get('op') is not None:
        walk_regex(x['op'], f)


def cinfo_sexp(dump, kind_ids):
    """payloads and kinds; kind numbering is the Rule enum of the emitted file (a naming, compared nowhere else)"""
    def kind(name):
        p = pascal(name)
        if p not in kind_ids:
            raise Unsupported('no Rule::%s in the emitted enum' % p)
        return kind_ids[p]
    pls = []
    for r in dump['rules']:
        if r['regex'] is None:
            continue
        rname = r['name']

        def f(x, rname=rname):
            k = x['k']
            i = x['id']
            if k in ('action', 'assert', 'marker'):
                pls.append('(%d (num %d))' % (i, int(x['value'][1:])))
            elif k == 'rename':
                nm = x['value'][1:]
                pls.append('(%d (rename %s))' % (i, 'none' if not nm else str(kind(nm))))
            elif k == 'creation':
                nn = x.get('node_name') or rname
                mk = 'none' if x['whole_rule'] else str(int(x['number']))
                pls.append('(%d (create %s %d))' % (i, mk, kind(nn)))
        walk_regex(r['regex'], f)
    kinds = ' '.join(str(kind(r['name'])) for r in dump['rules'])
    return '(cinfo (%s) (%s) %d)' % (' '.join(pls), kinds, kind_ids.get('Part', 0))


# ---------------------------------------------------------------- s-expressions

def parse_sexp(s):
    pos = 0
    n = len(s)

    def rd():
        nonlocal pos
        while pos < n and s[pos] == ' ':
            pos += 1
        if s[pos] == '(':
            pos += 1
            out = []
            while True:
                while pos < n and s[pos] == ' ':
                    pos += 1
                if s[pos] == ')':
                    pos += 1
                    return out
                out.append(rd())
        j = pos
        while j < n and s[j] not in ' ()':
            j += 1
        a = s[pos:j]
        pos = j
        return a
    return rd()


def canon_stmt(s, rule, msg):
    h = s[0]
    if h == 'expect':
        return [h, s[1], s[2], msg(s[3])]
    if h == 'call':
        return [h, rule(s[1]), s[2]]
    if h in ('error', 'adverr'):
        return [h, msg(s[1])]
    if h == 'match':
        arms = [[sorted(a[0], key=int), a[1], canon_block(a[2], rule, msg)] for a in s[1]]
        return [h, arms, canon_block(s[2], rule, msg)]
    if h in ('loop', 'ifnotelide'):
        return [h, canon_block(s[1], rule, msg)]
    if h == 'ordchoice':
        alts = [[sorted(a[0], key=int), canon_block(a[1], rule, msg)] for a in s[3]]
        return [h, s[1], s[2], alts, sorted(s[4], key=int), canon_block(s[5], rule, msg), msg(s[6])]
    return s


def canon_block(b, rule, msg):
    return [canon_stmt(s, rule, msg) for s in b]


def canon_program(p, rule, msg):
    assert p[0] == 'program'
    fns = {}
    for f in p[1]:
        _, rid, opt, body, rec = f
        r = 'none' if rec == 'none' else ['rec', rec[1], canon_block(rec[2], rule, msg)]
        fns[rule(rid)] = [opt, canon_block(body, rule, msg), r]
    return {'fns': fns, 'start': rule(p[2]), 'start_kind': p[3], 'part_kind': p[4], 'deletable': sorted(set(p[5]), key=int)}


# ---------------------------------------------------------------- messages

def rust_escape_fix(sym):
    # fn escape: replace(r"\\", r"\").replace(r"\'", "'") ; escape_default() is undone by the translator
    return sym.replace('\\\\', '\\').replace("\\'", "'")


def syntax_error_message(expected):
    if not expected:
        m = 'invalid syntax'
    elif len(expected) == 1:
        m = 'invalid syntax, expected: '
    else:
        m = 'invalid syntax, expected one of: '
    return rust_escape_fix(m + ', '.join(expected))


def message_renderer(dump, tok_ids, msgsets):
    names = {v: k for k, v in tok_ids.items()}
    token_symbols = {'EOF': '<end of file>'}
    tok_by_decl = {}
    for t in dump['tokens']:
        sym = t['symbol']
        token_symbols[t['name']] = t['name'] if sym is None else sym[1:-1]
        tok_by_decl[t['id']] = t
    nodes = {}
    for r in dump['rules']:
        if r['regex'] is not None:
            walk_regex(r['regex'], lambda x: nodes.__setitem__(x['id'], x))
    sets = {i: ts for i, ts in msgsets}

    def set_error(ts):
        exp = []
        for nm in sorted((names[t] for t in ts), key=lambda s: s.encode()):
            sym = token_symbols.get(nm)
            if sym is None:
                continue
            if sym.startswith('<') and sym.endswith('>') and len(sym.encode()) > 2:
                exp.append(sym)
            else:
                exp.append("'%s'" % sym)
        return syntax_error_message(exp)

    def msg(m):
        m = int(m)
        if m == 0:
            return '<assertion>'
        if m == 1:
            return syntax_error_message([])
        i, k = divmod(m - 2, 3)
        if k == 0:
            x = nodes.get(i)
            if x is None or x['k'] not in ('name', 'symbol'):
                return '<model: expect message of node %d which is no token reference>' % i
            t = tok_by_decl.get(x.get('decl'))
            if t is None:
                return '<model: unbound token reference %d>' % i
            if x['k'] == 'name':
                return syntax_error_message([t['name'] if t['symbol'] is None else t['symbol'][1:-1]])
            return syntax_error_message([t['symbol']])
        if k == 1:
            if i not in sets:
                return '<model: set message of node %d without a set>' % i
            return set_error(sets[i])
        return '<model: bad message id %d>' % m
    return msg


# ---------------------------------------------------------------- running the model

def run_model(lines, shards=16):
    from concurrent.futures import ThreadPoolExecutor
    if len(lines) > 32:
        k = (len(lines) + shards - 1) // shards
        chunks = [lines[i:i + k] for i in range(0, len(lines), k)]
        with ThreadPoolExecutor(max_workers=shards) as ex:
            parts = list(ex.map(run_model_one, chunks))
        return [x for p in parts for x in p]
    return run_model_one(lines)


def run_model_one(lines):
    r = subprocess.run(['bash', '-c', 'ulimit -s unlimited 2>/dev/null; exec "$0" kb', lv.MODEL_DRIVER],
                       input='\n'.join(lines) + '\n', stdout=subprocess.PIPE, stderr=subprocess.PIPE, text=True, timeout=600)
    outs = [l for l in r.stdout.split('\n') if l.strip()]
    if len(outs) != len(lines):
        raise RuntimeError('model kb returned %d results for %d grammars: %s' % (len(outs), len(lines), r.stderr[-1000:]))
    return [json.loads(l) for l in outs]


def first_diff(a, b, path=''):
    """a short description of the first place two canonical programs differ"""
    if type(a) != type(b):
        return '%s: %s vs %s' % (path, json.dumps(a)[:200], json.dumps(b)[:200])
    if isinstance(a, dict):
        for k in sorted(set(a) | set(b)):
            if k not in a or k not in b:
                return '%s/%s: only on one side (emitted: %s, model: %s)' % (path, k, k in a, k in b)
            d = first_diff(a[k], b[k], path + '/' + str(k))
            if d:
                return d
        return None
    if isinstance(a, list):
        if a and isinstance(a[0], str) and a != b and not any(isinstance(x, list) for x in a + b):
            return '%s: %s vs %s' % (path, json.dumps(a)[:200], json.dumps(b)[:200])
        for i, (x, y) in enumerate(zip(a, b)):
            d = first_diff(x, y, '%s[%d]' % (path, i))
            if d:
                return d
        if len(a) != len(b):
            return '%s: lengths %d vs %d (emitted tail %s, model tail %s)' % (path, len(a), len(b), json.dumps(a[len(b):])[:160], json.dumps(b[len(a):])[:160])
        return None
    if a != b:
        return '%s: %s vs %s' % (path, a, b)
    return None


def compare_items(items, max_nodes=None):
    """items: k3 items with 'pb' (translated + dump).  Returns (n_compared, n_skipped, diffs) where
    diffs = [(item, description)]"""
    max_nodes = max_nodes or k2.MAX_NODES
    todo = []
    lines = []
    skipped = 0
    for it in items:
        pb = it.get('pb')
        if pb is None:
            continue
        dump = it['res']['dump']
        try:
            if k2.count_nodes(dump) > max_nodes:
                skipped += 1
                continue
            gs, tok_ids = k2.grammar_sexp(dump)
            cs = cinfo_sexp(dump, pb.tr.kind_ids)
        except (k2.Unresolved, Unsupported):
            skipped += 1
            continue
        todo.append((it, tok_ids))
        lines.append(gs + '\t' + cs)
    if not lines:
        return 0, skipped, []
    outs = run_model(lines)
    diffs = []
    n = 0
    for (it, tok_ids), m in zip(todo, outs):
        pb = it['pb']
        dump = it['res']['dump']
        if m.get('r') != 'ok':
            diffs.append((it, 'the model did not produce a program: %s' % json.dumps(m)[:200]))
            continue
        if m.get('errors'):
            # the model's analysis rejects a grammar the implementation accepted: K2's business; no program to compare
            skipped += 1
            continue
        n += 1
        it['kb_scoped'] = m.get('scoped')   # Scoped.prog_scoped (compile g ...): hypothesis of C11_scoped_program_never_stuck
        names = {r['name']: i for i, r in enumerate(dump['rules'])}
        tr = pb.tr
        rid_name = {rid: name for name, rid in tr.rule_ids.items()}
        idx_name = {i: r['name'] for i, r in enumerate(dump['rules'])}
        emitted = canon_program(parse_sexp(pb.sexp), lambda r: rid_name[int(r)], lambda mid: tr.msgs[int(mid)])
        model = canon_program(parse_sexp(m['prog']), lambda r: idx_name.get(int(r), '?%s' % r),
                              message_renderer(dump, tok_ids, m['msgsets']))
        if emitted != model:
            diffs.append((it, first_diff(emitted, model) or 'programs differ'))
    return n, skipped, diffs
